package lnwallet

// Harness for C03: channel_reestablish resynchronisation.
//
// Units executed symbolically (real lnd code):
//   (*LightningChannel).ProcessChanSyncMsg, generateRevocation, OweCommitment /
//   oweCommitment, commitmentChain tip/tail/hasUnackedCommitment,
//   (*chanstate.OpenChannel).ChanSyncMsg, RemoteCommitChainTip, HasChanStatus,
//   lnwire.NewChanIDFromOutPoint, lnwire.ParseCustomRecords, ChannelType bit tests.
//
// Fakes behind interfaces lnd already has: shachain.Producer / shachain.Store
// (ideal secret sec(chain,h) = vHash), chanstate.Store (only
// RemoteCommitChainTip and AppendRemoteCommitChain). Replaced:
// input.ComputeCommitmentPoint (ideal point of a secret) and
// (*LightningChannel).SignNextCommitment (contract written at c03Sign).
//
// The oracle (c03Plan) is BOLT-2 "Message Retransmission" written from the
// specification; it does not call any function under test.

import (
	"context"
	"encoding/binary"
	"errors"
	"io"

	"github.com/btcsuite/btcd/btcec/v2"
	"github.com/btcsuite/btcd/btcec/v2/schnorr/musig2"
	"github.com/btcsuite/btcd/chainhash/v2"
	"github.com/btcsuite/btcd/wire/v2"
	"github.com/lightningnetwork/lnd/chanstate"
	"github.com/lightningnetwork/lnd/fn/v2"
	"github.com/lightningnetwork/lnd/graph/db/models"
	"github.com/lightningnetwork/lnd/input"
	"github.com/lightningnetwork/lnd/lntypes"
	"github.com/lightningnetwork/lnd/lnwire"
	"github.com/lightningnetwork/lnd/shachain"
)

// ---------------------------------------------------------------------------
// ideal secrets and points
// ---------------------------------------------------------------------------

// c03Sec is the per-commitment secret of party `chain` at height h.
func c03Sec(chain byte, h uint64) *chainhash.Hash {
	var hb [8]byte
	binary.BigEndian.PutUint64(hb[:], h)
	b := vHash("c03sec", 32, []byte{chain}, hb[:])
	var r chainhash.Hash
	copy(r[:], b)
	return &r
}

// c03Point stands in for input.ComputeCommitmentPoint under the symbolic
// engine: an opaque point that is a function of the secret. Natively the real
// function runs (vReplace is symbolic-only).
func c03Point(secret []byte) *btcec.PublicKey {
	var x, y btcec.FieldVal
	x.SetByteSlice(vHash("c03point", 32, secret))
	y.SetInt(1)
	return btcec.NewPublicKey(&x, &y)
}

// c03PoolPoint returns one of three pairwise distinct points. Symbolically a
// pair of small field values (only IsEqual is ever applied), natively a real
// curve point (so that the real SignNextCommitment can derive keys from it).
func c03PoolPoint(i byte) *btcec.PublicKey {
	if vNative() {
		var s [32]byte
		s[31] = i + 1
		return input.ComputeCommitmentPoint(s[:])
	}
	var x, y btcec.FieldVal
	x.SetInt(uint16(i) + 1)
	y.SetInt(1)
	return btcec.NewPublicKey(&x, &y)
}

type c03Producer struct{ chain byte }

func (p *c03Producer) AtIndex(h uint64) (*chainhash.Hash, error) { return c03Sec(p.chain, h), nil }
func (p *c03Producer) Encode(io.Writer) error                    { return nil }

// c03RevStore holds the peer's secrets for all heights below n (the heights
// the peer has revoked).
type c03RevStore struct {
	chain byte
	n     uint64
}

func (s *c03RevStore) LookUp(h uint64) (*chainhash.Hash, error) {
	if h >= s.n {
		return nil, errors.New("c03: secret not stored")
	}
	return c03Sec(s.chain, h), nil
}
func (s *c03RevStore) AddNextEntry(*chainhash.Hash) error { return errors.New("c03: unexpected AddNextEntry") }
func (s *c03RevStore) Encode(io.Writer) error             { return nil }

// c03Store is the channel store: only the two calls the unit makes exist; any
// other call dereferences the nil embedded interface (a panic obligation).
type c03Store struct {
	chanstate.Store
	hasDiff     bool                  // a CommitDiff is stored (remote chain has an unacked tip)
	shapes      int                   // number of CommitDiff shapes to split over (k = 0..shapes-1 updates)
	diff        *chanstate.CommitDiff // materialised on first read (its shape is a case split)
	tipFails    bool
	tipErr      error
	appendFails bool
	appendErr   error
	appended    []*chanstate.CommitDiff
	tipCalls    int
	freshSig    lnwire.Sig // what the SignNextCommitment stand-in signs with
}

func (s *c03Store) RemoteCommitChainTip(*chanstate.OpenChannel) (*chanstate.CommitDiff, error) {
	s.tipCalls++
	if s.tipFails {
		return nil, s.tipErr
	}
	if !s.hasDiff {
		return nil, chanstate.ErrNoPendingCommit
	}
	if s.diff == nil {
		n := s.shapes
		if n == 0 {
			n = 3
		}
		s.diff = c03Diff(vChoice("storedUpdates", n))
	}
	return s.diff, nil
}

func (s *c03Store) AppendRemoteCommitChain(_ *chanstate.OpenChannel, d *chanstate.CommitDiff) error {
	if s.appendFails {
		return s.appendErr
	}
	s.appended = append(s.appended, d)
	return nil
}

// ---------------------------------------------------------------------------
// one party's state after a reload
// ---------------------------------------------------------------------------

type c03Party struct {
	self, peer byte // chain ids of the own / the peer's secrets

	localH        uint64 // local commitment height (tail == tip after reload)
	remTail       uint64 // height of the peer's last revoked-into commitment
	unacked       bool   // a CommitDiff is stored: remote tip = remTail+1
	lastWasRevoke bool
	restored      bool
	ct            chanstate.ChannelType
	outpoint      wire.OutPoint

	// the four counters oweCommitment reads
	localLogIdx   uint64 // updateLogs.Local.logIndex
	tipLocalIdx   uint64 // remote tip: messageIndices.Local
	tipRemoteIdx  uint64 // remote tip: messageIndices.Remote
	tailRemoteIdx uint64 // local tail: messageIndices.Remote
	// counters oweCommitment must NOT read (other commitments of the chains)
	tailLocalIdx, oldLocalIdx, oldRemoteIdx uint64

	curPt, nextPt *btcec.PublicKey // RemoteCurrentRevocation / RemoteNextRevocation (nil = unknown)

	store    *c03Store
	realSign bool // native only: graft what the real SignNextCommitment needs

	// live reconnect states only (zz_verif_c03_live.go): the in-memory local
	// chain additionally holds a commitment at localH+1 that was received
	// (ReceiveNewCommitment) but not yet revoked; nothing of it is persisted, so
	// localH stays the tail AND the durable height.
	live                        bool
	liveLocalIdx, liveRemoteIdx uint64 // its messageIndices

	// taproot only
	skipInit  bool           // opts.skipNonceInit: the nonces were exchanged before (peer.addLink)
	localNonce *musig2.Nonces // our pending verification nonce
	prevNonce  lnwire.Musig2Nonce // skipInit: the remote nonce of the earlier exchange
}

func (p *c03Party) remTip() uint64 {
	if p.unacked {
		return p.remTail + 1
	}
	return p.remTail
}

// pending / window: the state predicates of SignNextCommitment's contract.
func (p *c03Party) pending() bool {
	last := p.tailRemoteIdx
	if p.live {
		last = p.liveRemoteIdx
	}
	return p.localLogIdx != p.tipLocalIdx || last != p.tipRemoteIdx
}

// lastLocalRemoteIdx: the peer's updates covered by the latest commitment the
// peer signed for us (after a reload that is the tail; live it is the tip).
func (p *c03Party) lastLocalRemoteIdx() uint64 {
	if p.live {
		return p.liveRemoteIdx
	}
	return p.tailRemoteIdx
}
func (p *c03Party) window() bool { return !p.unacked && p.nextPt != nil }

// c03DiffTx (native, taproot): a real commitment transaction for the real
// SignCommit to sign.
var c03DiffTx *wire.MsgTx

// vC03Base is set by the native setup: a real test channel whose signer, keys
// and balances let the real SignNextCommitment run during replay.
var vC03Base func(ct chanstate.ChannelType) *LightningChannel

func c03Chan(p *c03Party) *LightningChannel {
	st := &chanstate.OpenChannel{
		ChanType:                p.ct,
		FundingOutpoint:         p.outpoint,
		RevocationProducer:      &c03Producer{chain: p.self},
		RevocationStore:         &c03RevStore{chain: p.peer, n: p.remTail},
		RemoteCurrentRevocation: p.curPt,
		RemoteNextRevocation:    p.nextPt,
		LastWasRevoke:           p.lastWasRevoke,
		Db:                      p.store,
	}
	st.LocalCommitment.CommitHeight = p.localH
	st.RemoteCommitment.CommitHeight = p.remTail
	st.SetChannelStatusForStore(c03Status(p.restored))

	lch := newCommitmentChain()
	lch.addCommitment(&commitment{
		height:         p.localH,
		whoseCommit:    lntypes.Local,
		messageIndices: lntypes.Dual[uint64]{Local: p.tailLocalIdx, Remote: p.tailRemoteIdx},
	})
	if p.live {
		lch.addCommitment(&commitment{
			height:         p.localH + 1,
			whoseCommit:    lntypes.Local,
			messageIndices: lntypes.Dual[uint64]{Local: p.liveLocalIdx, Remote: p.liveRemoteIdx},
		})
	}
	rch := newCommitmentChain()
	if p.unacked {
		rch.addCommitment(&commitment{
			height:         p.remTail,
			whoseCommit:    lntypes.Remote,
			messageIndices: lntypes.Dual[uint64]{Local: p.oldLocalIdx, Remote: p.oldRemoteIdx},
		})
		rch.addCommitment(&commitment{
			height:         p.remTail + 1,
			whoseCommit:    lntypes.Remote,
			messageIndices: lntypes.Dual[uint64]{Local: p.tipLocalIdx, Remote: p.tipRemoteIdx},
		})
	} else {
		rch.addCommitment(&commitment{
			height:         p.remTail,
			whoseCommit:    lntypes.Remote,
			messageIndices: lntypes.Dual[uint64]{Local: p.tipLocalIdx, Remote: p.tipRemoteIdx},
		})
	}

	lc := &LightningChannel{
		channelState:  st,
		currentHeight: p.localH,
		commitChains:  lntypes.Dual[*commitmentChain]{Local: lch, Remote: rch},
		updateLogs: lntypes.Dual[*updateLog]{
			Local:  newUpdateLog(p.localLogIdx, 0),
			Remote: newUpdateLog(p.lastLocalRemoteIdx(), 0),
		},
	}
	if vNative() {
		lc.log = walletLog
		if (p.realSign || p.ct.IsTaproot()) && vC03Base != nil {
			c03Graft(lc, p)
		}
	}
	if p.ct.IsTaproot() {
		c03TaprootInit(lc, p)
	}
	return lc
}

// c03Graft (native replay only) copies from a real test channel what the real
// SignNextCommitment touches beyond the unit: keys, signer, balances.
func c03Graft(lc *LightningChannel, p *c03Party) {
	base := vC03Base(p.ct)
	bs, st := base.channelState, lc.channelState
	c03DiffTx = bs.RemoteCommitment.CommitTx
	st.LocalChanCfg, st.RemoteChanCfg = bs.LocalChanCfg, bs.RemoteChanCfg
	st.IsInitiator, st.Capacity, st.IdentityPub = bs.IsInitiator, bs.Capacity, bs.IdentityPub
	lc.Capacity = bs.Capacity
	lc.Signer, lc.signDesc, lc.sigPool = base.Signer, base.signDesc, base.sigPool
	lc.fundingOutput = base.fundingOutput
	st.TapscriptRoot = bs.TapscriptRoot
	lc.opts = defaultChannelOpts()
	lc.commitBuilder = NewCommitmentBuilder(st, fn.None[AuxLeafStore]())
	cp := func(dst, src *commitment) {
		dst.ourBalance, dst.theirBalance = src.ourBalance, src.theirBalance
		dst.fee, dst.feePerKw, dst.dustLimit = src.fee, src.feePerKw, src.dustLimit
	}
	cp(lc.commitChains.Local.tail(), base.commitChains.Local.tail())
	cp(lc.commitChains.Local.tip(), base.commitChains.Local.tail())
	cp(lc.commitChains.Remote.tail(), base.commitChains.Remote.tail())
	cp(lc.commitChains.Remote.tip(), base.commitChains.Remote.tail())
}

// c03Sign stands in for (*LightningChannel).SignNextCommitment under the
// symbolic engine (natively the real one runs). Contract, from the real
// function: ErrNoWindow iff the remote chain has an unacked commitment or the
// next revocation point is unknown (channel.go, first guard); otherwise the
// new commitment is signed, written with AppendRemoteCommitChain (whose error
// is returned) and the signature of the written CommitDiff is returned. The
// construction of the commitment itself is C01's unit.
func c03Sign(lc *LightningChannel, _ context.Context) (*NewCommitState, error) {
	if lc.commitChains.Remote.hasUnackedCommitment() || lc.channelState.RemoteNextRevocation == nil {
		return nil, ErrNoWindow
	}
	store := lc.channelState.Db.(*c03Store)
	sig := store.freshSig
	cs := &lnwire.CommitSig{
		ChanID:    lnwire.NewChanIDFromOutPoint(lc.channelState.FundingOutpoint),
		CommitSig: sig,
	}
	if err := lc.channelState.AppendRemoteCommitChain(&chanstate.CommitDiff{CommitSig: cs}); err != nil {
		return nil, err
	}
	return &NewCommitState{CommitSigs: &CommitSigs{CommitSig: sig}}, nil
}

func c03Config() {
	vReplace("github.com/lightningnetwork/lnd/input.ComputeCommitmentPoint", "github.com/lightningnetwork/lnd/lnwallet.c03Point")
	vReplace("(*github.com/lightningnetwork/lnd/lnwallet.LightningChannel).SignNextCommitment", "github.com/lightningnetwork/lnd/lnwallet.c03Sign")
	vReplace("github.com/lightningnetwork/lnd/chanstate.NewMusigVerificationNonce", "github.com/lightningnetwork/lnd/lnwallet.c03VerNonce")
	vReplace("(*github.com/lightningnetwork/lnd/lnwallet.MusigSession).SignCommit", "github.com/lightningnetwork/lnd/lnwallet.c03SignCommit")
	vAssumption("C03: per-commitment secrets are an ideal function sec(party, height) (vHash); commitment points are an ideal function of the secret; shachain producer/store and the channel store are fakes behind shachain.Producer, shachain.Store, chanstate.Store")
	vAssumption("C03: SignNextCommitment is replaced by its contract: ErrNoWindow iff the remote chain has an unacked commitment or RemoteNextRevocation is nil; otherwise it persists a CommitDiff through AppendRemoteCommitChain (returning that call's error) and returns the persisted signature")
}

// ---------------------------------------------------------------------------
// symbolic state and message
// ---------------------------------------------------------------------------

func c03Outpoint() wire.OutPoint {
	var op wire.OutPoint
	copy(op.Hash[:], vBytes("fundingTxid", 32))
	op.Index = vU32("fundingIndex")
	return op
}

// c03Diff is the stored CommitDiff: k in {0,1,2} update messages, then the
// signature.
func c03Diff(k int) *chanstate.CommitDiff {
	d := &chanstate.CommitDiff{
		CommitSig: &lnwire.CommitSig{},
	}
	d.Commitment.CommitTx = c03DiffTx
	if d.Commitment.CommitTx == nil {
		d.Commitment.CommitTx = &wire.MsgTx{Version: 2}
	}
	copy(d.CommitSig.ChanID[:], vBytes("diffChanID", 32))
	if k >= 1 {
		d.LogUpdates = append(d.LogUpdates, chanstate.LogUpdate{
			LogIndex:  vU64("upd0Index"),
			UpdateMsg: &lnwire.UpdateAddHTLC{ID: vU64("upd0ID"), Amount: lnwire.MilliSatoshi(vU64("upd0Amt"))},
		})
		d.OpenedCircuitKeys = []models.CircuitKey{{HtlcID: vU64("openedID")}}
	}
	if k >= 2 {
		d.LogUpdates = append(d.LogUpdates, chanstate.LogUpdate{
			LogIndex:  vU64("upd1Index"),
			UpdateMsg: &lnwire.UpdateFulfillHTLC{ID: vU64("upd1ID")},
		})
		d.ClosedCircuitKeys = []models.CircuitKey{{HtlcID: vU64("closedID")}}
	}
	if k >= 3 {
		d.LogUpdates = append(d.LogUpdates, chanstate.LogUpdate{
			LogIndex:  vU64("upd2Index"),
			UpdateMsg: &lnwire.UpdateFailHTLC{ID: vU64("upd2ID")},
		})
		d.ClosedCircuitKeys = append(d.ClosedCircuitKeys, models.CircuitKey{HtlcID: vU64("closedID2")})
	}
	if k >= 4 {
		d.LogUpdates = append(d.LogUpdates, chanstate.LogUpdate{
			LogIndex:  vU64("upd3Index"),
			UpdateMsg: &lnwire.UpdateFee{FeePerKw: vU32("upd3Fee")},
		})
	}
	return d
}

func c03SymParty(self, peer byte) *c03Party {
	p := &c03Party{self: self, peer: peer}
	p.localH = vU64("localHeight")
	p.remTail = vU64("remoteTail")
	// shape of the remote chain: 0 = the peer's next point is not known yet
	// (nothing can have been signed beyond the tail: SignNextCommitment's first
	// guard), 1 = next point known, tip == tail, 2 = an unacked commitment
	shape := vChoice("shape", 3)
	p.unacked = shape == 2
	// Domain: h+1 of a LOCAL height does not wrap. Commitment numbers are 48
	// bits (BOLT-3; SetStateNumHint rejects larger ones) so no reachable
	// channel has a height anywhere near 2^64-1. Message fields are NOT bounded.
	vAssume(p.localH != ^uint64(0) && p.remTail < ^uint64(0)-1)
	p.lastWasRevoke = vBool("lastWasRevoke")
	p.restored = vBool("restored")
	p.outpoint = c03Outpoint()
	p.localLogIdx, p.tipLocalIdx = vU64("localLogIndex"), vU64("remoteTipLocalIndex")
	p.tipRemoteIdx, p.tailRemoteIdx = vU64("remoteTipRemoteIndex"), vU64("localTailRemoteIndex")
	p.tailLocalIdx, p.oldLocalIdx, p.oldRemoteIdx = vU64("localTailLocalIndex"), vU64("remoteTailLocalIndex"), vU64("remoteTailRemoteIndex")
	p.curPt = c03PoolPoint(0)
	if shape != 0 {
		p.nextPt = c03PoolPoint(1)
	}
	p.store = &c03Store{
		tipFails:    vBool("storeTipFails"),
		tipErr:      errors.New("c03: RemoteCommitChainTip failed"),
		appendFails: vBool("storeAppendFails"),
		appendErr:   errors.New("c03: AppendRemoteCommitChain failed"),
	}
	sig, _ := lnwire.NewSigFromWireECDSA(vBytes("freshSig", 64))
	p.store.freshSig = sig
	p.store.hasDiff = p.unacked
	return p
}

type c03Msg struct {
	m             *lnwire.ChannelReestablish
	nonceKind     int                // taproot: see c03MsgNonces
	nonce         lnwire.Musig2Nonce // the nonce the receiver must use (if any)
	hasOpts       bool
	secretCorrect bool
	ptSel         byte // 0 = none, 1..3 = pool point 0..2
}

func c03Status(restored bool) chanstate.ChannelStatus {
	if restored {
		return chanstate.ChanStatusRestored
	}
	return chanstate.ChanStatusDefault
}

func c03Succ(h uint64, inc bool) uint64 {
	if inc {
		return h + 1
	}
	return h
}

func c03Pick(c bool, a, b byte) byte {
	if c {
		return a
	}
	return b
}

// c03SymMsg: every field of channel_reestablish arbitrary. The 32-byte secret
// is split into "the correct one for the claimed height" / "any other value"
// (a complete case distinction) so that counterexamples replay against the
// native hash.
func c03SymMsg(p *c03Party) *c03Msg {
	x := &c03Msg{m: &lnwire.ChannelReestablish{}}
	x.m.ChanID = lnwire.NewChanIDFromOutPoint(p.outpoint)
	x.m.NextLocalCommitHeight = vU64("msgNextLocalCommitHeight")
	x.m.RemoteCommitTailHeight = vU64("msgRemoteCommitTailHeight")
	want := c03Sec(p.self, x.m.RemoteCommitTailHeight-1)
	x.secretCorrect = vBool("msgSecretCorrect")
	other := vBytes("msgSecretOther", 32)
	differs := false
	for i := 0; i < 32; i++ {
		differs = differs || other[i] != want[i]
		x.m.LastRemoteCommitSecret[i] = c03Pick(x.secretCorrect, want[i], other[i])
	}
	vAssume(x.secretCorrect || differs)
	// data-loss-protect fields present or not; if present the point is the
	// current one (1), the next one (2) or a third one (3)
	x.hasOpts = vBool("msgHasRecoveryFields")
	if x.hasOpts {
		x.ptSel = vU8("msgPointSel")
		vAssume(x.ptSel >= 1 && x.ptSel <= 3)
		if vNative() {
			x.m.LocalUnrevokedCommitPoint = c03PoolPoint(x.ptSel - 1)
		} else {
			var fx, fy btcec.FieldVal
			fx.SetInt(uint16(x.ptSel))
			fy.SetInt(1)
			x.m.LocalUnrevokedCommitPoint = btcec.NewPublicKey(&fx, &fy)
		}
	}
	return x
}

// ---------------------------------------------------------------------------
// BOLT-2 reference
// ---------------------------------------------------------------------------

const (
	c03OK = iota
	c03InvalidSecret
	c03LocalDataLoss
	c03CannotSync
	c03RemoteDataLoss
	c03InvalidPoint
	c03StoreErr
	c03SignErr
	c03Other
)

func c03Class(p *c03Party, err error) (int, *ErrCommitSyncLocalDataLoss) {
	if err == nil {
		return c03OK, nil
	}
	if dl, ok := err.(*ErrCommitSyncLocalDataLoss); ok {
		return c03LocalDataLoss, dl
	}
	switch err {
	case ErrInvalidLastCommitSecret:
		return c03InvalidSecret, nil
	case ErrCannotSyncCommitChains:
		return c03CannotSync, nil
	case ErrCommitSyncRemoteDataLoss:
		return c03RemoteDataLoss, nil
	case ErrInvalidLocalUnrevokedCommitPoint:
		return c03InvalidPoint, nil
	case p.store.tipErr:
		return c03StoreErr, nil
	case p.store.appendErr:
		return c03SignErr, nil
	}
	return c03Other, nil
}

// c03Ref: what BOLT-2 says the receiver B (state p) of channel_reestablish
// (next_commitment_number n, next_revocation_number r) must do. All
// comparisons are exact (no h+1 is formed that could wrap).
type c03Ref struct {
	// failure conditions
	secretBad    bool // option_data_loss_protect: your_last_per_commitment_secret does not match
	weAreBehind  bool // r is ahead of the revocations we ever sent (or we are a restored stub)
	theyLostRev  bool // r is more than one behind the revocations we sent
	theyAhead    bool // n is more than one ahead of the last commitment_signed we sent
	theyLostSig  bool // n asks for a commitment they already acked by revoking
	pointBad     bool // my_current_per_commitment_point is not the one we hold for height n-1
	storeBad     bool // the stored commitment to retransmit cannot be read
	signBad      bool // the fresh signature could not be persisted
	nonceBad     bool // taproot: no usable next_local_nonce in the message
	// retransmissions when nothing fails
	oweRev    bool // r == number of the last revoke_and_ack we sent
	oweCommit bool // n == number of the last commitment_signed we sent, not yet acked
	fresh     bool // lnd additionally signs the pending updates after a retransmitted revocation
}

func c03Reference(p *c03Party, x *c03Msg) c03Ref {
	var f c03Ref
	n, r := x.m.NextLocalCommitHeight, x.m.RemoteCommitTailHeight
	L, tail, tip := p.localH, p.remTail, p.remTip()

	// revoke_and_ack side. We have sent revocations for heights 0..L-1.
	f.weAreBehind = r > L || p.restored
	f.theyLostRev = r < L && L-r >= 2
	f.oweRev = r < L && L-r == 1 && !p.restored
	// commitment_signed side. The last one we sent has number tip; the peer
	// acked (revoked into) number tail.
	f.theyAhead = n > tip && n-tip >= 2
	f.theyLostSig = n <= tail
	f.oweCommit = p.unacked && n == tip

	f.secretBad = x.hasOpts && r != 0 && !x.secretCorrect

	// my_current_per_commitment_point: the sender's point for its latest
	// commitment, number n-1. We hold the points for tail (current) and,
	// once known, tail+1 (next).
	var want byte // pool index+1 of the expected point, 0 = unknown
	if n >= 1 && n-1 == tail {
		want = 1
	}
	if n >= 2 && n-2 == tail && p.nextPt != nil {
		want = 2
	}
	tweakless := p.ct&chanstate.SingleFunderTweaklessBit != 0
	f.pointBad = x.hasOpts && !tweakless && want != 0 && x.ptSel != want

	f.storeBad = f.oweCommit && p.store.tipFails
	signReached := f.oweRev && p.pending()
	f.signBad = signReached && p.window() && p.store.appendFails
	f.fresh = signReached && p.window() && !p.store.appendFails
	return f
}

func (f c03Ref) mustFail() bool {
	return f.secretBad || f.weAreBehind || f.theyLostRev || f.theyAhead || f.theyLostSig ||
		f.pointBad || f.storeBad || f.signBad || f.nonceBad
}

// admissible: BOLT-2 does not order the checks, so any failure whose
// condition holds may be the one reported. A local-data-loss report is only
// admissible with the recovery fields present and a correct secret (BOLT-2:
// "AND your_last_per_commitment_secret is correct").
func (f c03Ref) admissible(cls int, hasOpts bool) bool {
	switch cls {
	case c03InvalidSecret:
		return f.secretBad
	case c03LocalDataLoss:
		return f.weAreBehind && hasOpts && !f.secretBad
	case c03CannotSync:
		return (f.weAreBehind && !hasOpts) || f.theyAhead
	case c03RemoteDataLoss:
		return f.theyLostRev || f.theyLostSig
	case c03InvalidPoint:
		return f.pointBad
	case c03StoreErr:
		return f.storeBad
	case c03SignErr:
		return f.signBad
	case c03Other:
		// the only failures without a sentinel error value are the two
		// "nonce missing" errors of taproot channels
		return f.nonceBad
	}
	return false
}

// ---------------------------------------------------------------------------
// checking one ProcessChanSyncMsg result against the reference
// ---------------------------------------------------------------------------

type c03Result struct {
	msgs           []lnwire.Message
	opened, closed []models.CircuitKey
	err            error
}

func c03SameKeys(a, b []models.CircuitKey) bool {
	if len(a) != len(b) {
		return false
	}
	same := true
	for i := range a {
		same = same && a[i] == b[i]
	}
	return same
}

func c03Check(tag string, p *c03Party, x *c03Msg, f c03Ref, res c03Result) {
	cls, dl := c03Class(p, res.err)
	vObserve(tag+"class", cls)
	vObserve(tag+"msgs", len(res.msgs))

	vAssert((cls != c03OK) == f.mustFail(), tag+"the channel is failed iff BOLT-2 names a reason to fail it")
	if cls != c03OK {
		vAssert(cls != c03Other || f.nonceBad, tag+"unexpected error value")
		vAssert(f.admissible(cls, x.hasOpts), tag+"the reported failure is one whose BOLT-2 condition holds (no false data-loss)")
		vAssert(len(res.msgs) == 0 && len(res.opened) == 0 && len(res.closed) == 0, tag+"nothing is retransmitted together with a failure")
		if dl != nil {
			vAssert(dl.ChannelPoint == p.outpoint && dl.CommitPoint == x.m.LocalUnrevokedCommitPoint,
				tag+"local data loss carries the channel point and the peer's commit point")
		}
		c03ReachFail(tag, cls, f, x)
		return
	}

	// parse the (concrete) list of returned messages
	diff := p.store.diff
	revAt, sigAt, freshAt := -1, -1, -1
	nRev, nFresh, nUpd := 0, 0, 0
	for i, m := range res.msgs {
		switch t := m.(type) {
		case *lnwire.RevokeAndAck:
			revAt = i
			nRev++
		case *lnwire.CommitSig:
			if diff != nil && t == diff.CommitSig {
				sigAt = i
			} else {
				freshAt = i
				nFresh++
			}
		default:
			nUpd++
		}
	}
	vAssert(nRev <= 1 && nFresh <= 1, tag+"at most one revocation and one fresh signature")
	vAssert((revAt >= 0) == f.oweRev, tag+"revoke_and_ack is retransmitted iff next_revocation_number is the number of the last one sent")
	vAssert((sigAt >= 0) == f.oweCommit, tag+"commitment_signed is retransmitted iff next_commitment_number is the number of the last one sent")
	vAssert((freshAt >= 0) == f.fresh, tag+"a fresh commitment_signed follows iff one was signed and persisted")

	if revAt >= 0 {
		rev := res.msgs[revAt].(*lnwire.RevokeAndAck)
		want := c03Sec(p.self, p.localH-1)
		eq := true
		for i := 0; i < 32; i++ {
			eq = eq && rev.Revocation[i] == want[i]
		}
		vAssert(eq, tag+"the retransmitted revocation is the secret of the previous local height")
		next := input.ComputeCommitmentPoint(c03Sec(p.self, p.localH+1)[:])
		vAssert(rev.NextRevocationKey != nil && rev.NextRevocationKey.IsEqual(next), tag+"the retransmitted revocation carries the point for local height+1")
		vAssert(rev.ChanID == lnwire.NewChanIDFromOutPoint(p.outpoint), tag+"revocation channel id")
	}
	if sigAt >= 0 {
		k := len(diff.LogUpdates)
		first := sigAt - k
		ok := first >= 0 && nUpd == k
		if ok {
			for j := 0; j < k; j++ {
				ok = ok && res.msgs[first+j] == diff.LogUpdates[j].UpdateMsg
			}
		}
		vAssert(ok, tag+"exactly the stored updates, in order, directly before their commitment_signed")
		vAssert(c03SameKeys(res.opened, diff.OpenedCircuitKeys) && c03SameKeys(res.closed, diff.ClosedCircuitKeys),
			tag+"circuit keys of the retransmitted commitment are reported")
		vAssert(p.store.tipCalls == 1, tag+"the stored commitment is read once")
		if revAt >= 0 {
			// BOLT-2: same relative order as initially transmitted
			vAssert((revAt > sigAt) == p.lastWasRevoke, tag+"revocation and signature keep their original relative order")
			vAssert(revAt == 0 || revAt == len(res.msgs)-1, tag+"the revocation is not inside the update batch")
		}
	} else {
		vAssert(nUpd == 0 && len(res.opened) == 0 && len(res.closed) == 0, tag+"no updates without their commitment_signed")
	}
	if freshAt >= 0 {
		cs := res.msgs[freshAt].(*lnwire.CommitSig)
		vAssert(freshAt == len(res.msgs)-1 && revAt == 0, tag+"the fresh signature comes after the retransmitted revocation")
		ok := len(p.store.appended) == 1
		if ok {
			w := p.store.appended[0].CommitSig
			ok = cs.ChanID == w.ChanID && cs.CommitSig == w.CommitSig && len(cs.HtlcSigs) == len(w.HtlcSigs)
		}
		vAssert(ok, tag+"the fresh commitment_signed is the one that was persisted")
		vAssert(cs.ChanID == lnwire.NewChanIDFromOutPoint(p.outpoint), tag+"fresh signature channel id")
	} else {
		vAssert(len(p.store.appended) == 0, tag+"no commitment is persisted without being sent")
	}

	switch {
	case revAt >= 0 && sigAt >= 0 && revAt < sigAt:
		vReach(tag + "resend-revocation-then-commit")
	case revAt >= 0 && sigAt >= 0:
		vReach(tag + "resend-commit-then-revocation")
	case revAt >= 0 && freshAt >= 0:
		vReach(tag + "resend-revocation-and-sign")
	case revAt >= 0:
		if p.pending() {
			// updates pending but the window is closed: SignNextCommitment
			// answered ErrNoWindow and only the revocation goes out
			vReach(tag + "resend-revocation-no-window")
		} else {
			vReach(tag + "resend-revocation")
		}
	case sigAt >= 0:
		vReach(tag + "resend-commit")
	default:
		vReach(tag + "in-sync")
	}
}

func c03ReachFail(tag string, cls int, f c03Ref, x *c03Msg) {
	switch cls {
	case c03InvalidSecret:
		vReach(tag + "invalid-secret")
	case c03LocalDataLoss:
		vReach(tag + "local-data-loss")
	case c03CannotSync:
		if f.theyAhead && !f.weAreBehind {
			vReach(tag + "cannot-sync-peer-ahead")
		} else if !x.hasOpts {
			vReach(tag + "cannot-sync-behind-without-dlp")
		}
	case c03RemoteDataLoss:
		if f.theyLostRev {
			vReach(tag + "remote-data-loss-revocation")
		} else {
			vReach(tag + "remote-data-loss-commitment")
		}
	case c03InvalidPoint:
		vReach(tag + "invalid-commit-point")
	case c03StoreErr:
		vReach(tag + "store-error")
	case c03SignErr:
		vReach(tag + "sign-error")
	case c03Other:
		vReach(tag + "taproot-nonce-missing")
	}
}

func c03Process(lc *LightningChannel, m *lnwire.ChannelReestablish) c03Result {
	msgs, opened, closed, err := lc.ProcessChanSyncMsg(context.Background(), m)
	return c03Result{msgs, opened, closed, err}
}

// ---------------------------------------------------------------------------
// Obligation 1: decision table, every message against every local state
// ---------------------------------------------------------------------------

const c03TaprootBit = chanstate.SimpleTaprootFeatureBit

// c03SignType: the channel types the native replay can really sign for.
func c03SignType(i int) chanstate.ChannelType {
	switch i {
	case 0:
		return chanstate.SingleFunderBit
	case 1:
		return chanstate.SingleFunderTweaklessBit
	}
	return chanstate.SingleFunderTweaklessBit | chanstate.AnchorOutputsBit | chanstate.ZeroHtlcTxFeeBit
}

func c03Table(signDomain bool, shapes int, live bool) {
	c03Config()
	p := c03SymParty(1, 2)
	p.store.shapes = shapes
	if live {
		c03LiveParty(p, "")
	}
	if signDomain {
		// states in which a retransmitted revocation is followed by a real
		// SignNextCommitment: updates pending, window open. Commitment numbers
		// are 48 bits (BOLT-3), which the real signer enforces.
		vAssumption("C03 sign domain: pending updates, open revocation window, remote tip height+1 <= 2^48-1 (BOLT-3 commitment number width); channel types legacy / tweakless / zero-fee anchors")
		vAssume(p.pending() && p.window())
		vAssume(p.remTail < 1<<48-1)
		p.ct = c03SignType(vChoice("chanType", 3))
		p.realSign = true
	} else {
		vAssumption("C03 table domain: non-taproot channel types (all other type bits arbitrary); local heights below 2^64-1; message heights arbitrary 64-bit")
		vAssume(!(p.pending() && p.window()))
		p.ct = chanstate.ChannelType(vU64("chanType"))
		vAssume(p.ct&c03TaprootBit == 0)
	}
	x := c03SymMsg(p)
	f := c03Reference(p, x)
	lc := c03Chan(p)
	res := c03Process(lc, x.m)
	if live {
		// first: the release rule is the headline of a counterexample
		c03LiveCheck(c03LiveTag(p), p, lc, res)
	}
	c03Check(c03LiveTag(p), p, x, f, res)
}

func VerifC03Table()         { c03Table(false, 3, false) }
func VerifC03TableSign()     { c03Table(true, 3, false) }
func VerifC03TableThorough() { c03Table(false, 5, false) }

// ---------------------------------------------------------------------------
// Obligation 2: honest pair. Both parties reloaded from disk after a
// disconnect at an arbitrary instant; each sends the channel_reestablish the
// real ChanSyncMsg builds from its state and processes the peer's.
// ---------------------------------------------------------------------------

// c03HonestParty: the part of one party's state that is independent of the
// peer. Heights are filled in by c03HonestPair.
func c03HonestParty(tag string, self, peer byte, ct chanstate.ChannelType, op wire.OutPoint) *c03Party {
	p := &c03Party{self: self, peer: peer, ct: ct, outpoint: op}
	p.lastWasRevoke = vBool(tag + "LastWasRevoke")
	p.localLogIdx, p.tipLocalIdx = vU64(tag+"LocalLogIndex"), vU64(tag+"RemoteTipLocalIndex")
	p.tipRemoteIdx, p.tailRemoteIdx = vU64(tag+"RemoteTipRemoteIndex"), vU64(tag+"LocalTailRemoteIndex")
	p.tailLocalIdx, p.oldLocalIdx, p.oldRemoteIdx = vU64(tag+"LocalTailLocalIndex"), vU64(tag+"RemoteTailLocalIndex"), vU64(tag+"RemoteTailRemoteIndex")
	p.store = &c03Store{
		tipErr:    errors.New("c03: RemoteCommitChainTip failed"),
		appendErr: errors.New("c03: AppendRemoteCommitChain failed"),
	}
	return p
}

// c03HonestPair builds two states related by the consistency relation R that
// a disconnect at any instant of any run leaves behind:
//
//	B.remTail <= A.localH <= B.remTip      A.remTail <= B.localH <= A.remTip
//
// (a party's persisted local height is the number of revocations it has sent;
// the peer's remote tail is the number of those it has received; at most one
// is in flight, and none can be sent for a commitment the peer has not signed),
// each revocation store holds the peer's secrets below its remote tail, and
// the stored current/next points are the peer's points for remTail, remTail+1.
func c03HonestPair() (a, b *c03Party, dA, dB bool) { return c03HonestPairL(0) }

// c03HonestPairL: with live = 1 the receiver B, with live = 2 each party may additionally hold a received,
// not yet revoked commitment in memory (see zz_verif_c03_live.go).
func c03HonestPairL(live uint64) (a, b *c03Party, dA, dB bool) {
	ct := chanstate.ChannelType(vU64("chanType"))
	vAssume(ct&c03TaprootBit == 0)
	op := c03Outpoint()
	a = c03HonestParty("a", 1, 2, ct, op)
	b = c03HonestParty("b", 2, 1, ct, op)

	// shape of each remote chain as in c03SymParty
	sa, sb := vChoice("aShape", 3), vChoice("bShape", 3)
	a.unacked, b.unacked = sa == 2, sb == 2
	a.remTail, b.remTail = vU64("aRemoteTail"), vU64("bRemoteTail")
	// commitment numbers are 48 bits; only "h+2 does not wrap" is needed
	vAssume(a.remTail < ^uint64(0)-1 && b.remTail < ^uint64(0)-1)

	// dA: A has sent one revocation B has not received (needs a commitment
	// signed by B that A could revoke into: B's unacked tip)
	dA, dB = vBool("aRevocationInFlight"), vBool("bRevocationInFlight")
	vAssume(!dA || b.unacked)
	vAssume(!dB || a.unacked)
	a.localH, b.localH = c03Succ(b.remTail, dA), c03Succ(a.remTail, dB)

	// points: what the peer really has at those heights
	a.curPt = input.ComputeCommitmentPoint(c03Sec(b.self, a.remTail)[:])
	b.curPt = input.ComputeCommitmentPoint(c03Sec(a.self, b.remTail)[:])
	if sa != 0 {
		a.nextPt = input.ComputeCommitmentPoint(c03Sec(b.self, a.remTail+1)[:])
	}
	if sb != 0 {
		b.nextPt = input.ComputeCommitmentPoint(c03Sec(a.self, b.remTail+1)[:])
	}
	a.store.hasDiff, b.store.hasDiff = a.unacked, b.unacked
	if live != 0 {
		c03LivePair(a, b, dA, dB, live == 2)
	}
	// SignNextCommitment after a retransmitted revocation is VerifC03TableSign's
	// subject (arbitrary messages, hence honest ones too)
	vAssume(!(a.pending() && a.window()) && !(b.pending() && b.window()))
	return
}

// c03Deliver: `from` builds its channel_reestablish with the real ChanSyncMsg,
// `to` processes it. want* come from the relation R, not from the code.
func c03Deliver(tag string, from, to *c03Party, lcFrom, lcTo *LightningChannel, stripDLP bool, wantRev, wantCommit bool) {
	m, err := lcFrom.channelState.ChanSyncMsg()
	vAssert(err == nil && m != nil, tag+"ChanSyncMsg succeeds on an honest state")
	if err != nil || m == nil {
		return
	}
	vAssert(m.NextLocalCommitHeight == from.localH+1 && m.RemoteCommitTailHeight == from.remTail,
		tag+"channel_reestablish announces local height+1 and the peer's acked height")
	vAssert(m.ChanID == lnwire.NewChanIDFromOutPoint(from.outpoint), tag+"channel_reestablish names the channel")
	if stripDLP {
		// a peer without option_data_loss_protect
		m.LocalUnrevokedCommitPoint = nil
		m.LastRemoteCommitSecret = [32]byte{}
	}
	x := &c03Msg{m: m, hasOpts: m.LocalUnrevokedCommitPoint != nil, secretCorrect: true}
	res := c03Process(lcTo, m)
	c03Check(tag, to, x, c03Ref{oweRev: wantRev, oweCommit: wantCommit}, res)
}

func VerifC03Honest() {
	c03Config()
	vAssumption("C03 honest pair: both states related by R (see c03HonestPair); non-taproot channel types; no store failure; neither side restored")
	a, b, dA, dB := c03HonestPair()
	stripDLP := vBool("peerWithoutDLP")
	lcA, lcB := c03Chan(a), c03Chan(b)
	_ = dA
	// A is missing B's revocation iff B has one in flight (dB); A is missing
	// B's last commitment_signed iff B has an unacked commitment that A has not
	// revoked into (A's persisted height is still B's remote tail: !dA).
	// The direction B->A is the same statement with the names swapped: R and
	// the domain are symmetric in A and B.
	c03Deliver("", a, b, lcA, lcB, stripDLP, dB, b.unacked && !dA)
}

// VerifC03HonestBoth (thorough): both directions on one pair of states, B's
// processing of A's message first, then A's processing of B's.
func VerifC03HonestBoth() {
	c03Config()
	vAssumption("C03 honest pair: both states related by R (see c03HonestPair); non-taproot channel types; no store failure; neither side restored")
	a, b, dA, dB := c03HonestPair()
	a.store.shapes, b.store.shapes = 5, 5
	stripDLP := vBool("peerWithoutDLP")
	lcA, lcB := c03Chan(a), c03Chan(b)
	c03Deliver("A->B ", a, b, lcA, lcB, stripDLP, dB, b.unacked && !dA)
	c03Deliver("B->A ", b, a, lcB, lcA, stripDLP, dA, a.unacked && !dB)
}

// VerifC03RestoredPeer: A was restored from a static channel backup. Its
// channel_reestablish must make the honest B fail the channel (so that B force
// closes and A can sweep), never resume it.
func VerifC03RestoredPeer() {
	c03Config()
	vInjective("c03point")
	vAssumption("C03 restored peer: distinct secrets have distinct commitment points (ideal point function injective)")
	a, b, _, _ := c03HonestPair()
	a.restored = true
	lcA, lcB := c03Chan(a), c03Chan(b)
	m, err := lcA.channelState.ChanSyncMsg()
	vAssert(err == nil && m != nil, "ChanSyncMsg succeeds on a restored channel")
	if err != nil || m == nil {
		return
	}
	res := c03Process(lcB, m)
	cls, _ := c03Class(b, res.err)
	vObserve("class", cls)
	vAssert(cls != c03OK && len(res.msgs) == 0, "a restored peer's channel_reestablish always fails the channel at the honest side")
	switch cls {
	case c03InvalidPoint:
		vReach("restored-invalid-point")
	case c03RemoteDataLoss:
		vReach("restored-tweakless-height-zero")
	}
}

// ---------------------------------------------------------------------------
// Taproot channels: nonce plumbing of channel_reestablish
// ---------------------------------------------------------------------------

// c03VerNonce stands in for chanstate.NewMusigVerificationNonce under the
// symbolic engine: an ideal public nonce that is a function of the shachain
// secret at the target height (natively the real, deterministic function
// runs).
func c03VerNonce(_ *btcec.PublicKey, height uint64, gen shachain.Producer) (*musig2.Nonces, error) {
	pre, err := gen.AtIndex(height)
	if err != nil {
		return nil, err
	}
	n := &musig2.Nonces{}
	copy(n.PubNonce[:], vHash("c03nonce", 66, pre[:]))
	return n, nil
}

// c03Musig records what the SignCommit stand-in saw.
var c03Musig struct {
	calls   int
	tx      *wire.MsgTx
	remote  lnwire.Musig2Nonce // verification nonce of the session that signed
	scalar  uint32
	session *MusigSession
}

// c03SignCommit stands in for (*MusigSession).SignCommit under the symbolic
// engine: an opaque partial signature. It records the session's verification
// nonce at signing time, i.e. which remote nonce the signature is bound to.
func c03SignCommit(m *MusigSession, tx *wire.MsgTx) (*MusigPartialSig, error) {
	c03Musig.calls++
	c03Musig.tx = tx
	c03Musig.session = m
	c03Musig.remote = m.nonces.VerificationNonce.PubNonce
	var sc btcec.ModNScalar
	sc.SetInt(c03Musig.scalar)
	return &MusigPartialSig{sig: &musig2.PartialSignature{S: &sc}}, nil
}

// c03RemoteNonce: a public nonce of the peer. Symbolically arbitrary bytes,
// natively a real nonce (the real SignCommit parses it).
func c03RemoteNonce(name string) lnwire.Musig2Nonce {
	var n lnwire.Musig2Nonce
	copy(n[:], vBytes(name, 66))
	if vNative() {
		var seed [32]byte
		copy(seed[:], n[:32])
		seed[0] |= 1
		priv, pub := btcec.PrivKeyFromBytes(seed[:])
		_ = priv
		nn, err := musig2.GenNonces(musig2.WithPublicKey(pub))
		if err != nil {
			panic(err)
		}
		n = nn.PubNonce
	}
	return n
}

func c03TaprootInit(lc *LightningChannel, p *c03Party) {
	if lc.opts == nil {
		lc.opts = defaultChannelOpts()
	}
	lc.opts.skipNonceInit = p.skipInit
	lc.taprootNonceProducer = &c03Producer{chain: p.self + 16}
	// NewLightningChannel generates the verification nonce for height+1
	n, err := chanstate.NewMusigVerificationNonce(
		lc.channelState.LocalChanCfg.MultiSigKey.PubKey, p.localH+1, lc.taprootNonceProducer,
	)
	if err != nil {
		panic(err)
	}
	lc.pendingVerificationNonce = n
	p.localNonce = n
	if p.skipInit {
		// the link was added with nonces already exchanged: sessions exist
		if err := lc.InitRemoteMusigNonces(&musig2.Nonces{PubNonce: p.prevNonce}); err != nil {
			panic(err)
		}
	}
}

// c03MsgNonces fills the nonce fields of the message.
//
//	kind 0: none            1: legacy LocalNonce
//	     2: LocalNonces map holding the funding txid
//	     3: LocalNonces map without the funding txid
//	     4: both fields (LocalNonces has priority)
func c03MsgNonces(p *c03Party, x *c03Msg, kinds int) {
	x.nonceKind = vChoice("msgNonceKind", kinds)
	legacy, mapped := c03RemoteNonce("msgLocalNonce"), c03RemoteNonce("msgLocalNoncesEntry")
	switch x.nonceKind {
	case 1:
		x.m.LocalNonce = lnwire.SomeMusig2Nonce(legacy)
		x.nonce = legacy
	case 2, 4:
		x.m.LocalNonces = lnwire.SomeLocalNonces(lnwire.LocalNoncesData{
			NoncesMap: map[chainhash.Hash]lnwire.Musig2Nonce{p.outpoint.Hash: mapped},
		})
		x.nonce = mapped
		if x.nonceKind == 4 {
			x.m.LocalNonce = lnwire.SomeMusig2Nonce(legacy)
		}
	case 3:
		other := p.outpoint.Hash
		other[0] ^= 0x80
		x.m.LocalNonces = lnwire.SomeLocalNonces(lnwire.LocalNoncesData{
			NoncesMap: map[chainhash.Hash]lnwire.Musig2Nonce{other: mapped},
		})
	}
}

func c03TaprootType(i int) chanstate.ChannelType {
	base := chanstate.SingleFunderTweaklessBit | chanstate.AnchorOutputsBit | chanstate.ZeroHtlcTxFeeBit |
		chanstate.SimpleTaprootFeatureBit
	if i == 1 {
		return base | chanstate.TaprootFinalBit
	}
	return base
}

// c03TaprootPost: obligations specific to taproot after a successful resync.
func c03TaprootPost(lc *LightningChannel, p *c03Party, x *c03Msg, res c03Result) {
	vAssert(lc.musigSessions != nil && lc.musigSessions.RemoteSession != nil && lc.musigSessions.LocalSession != nil,
		"taproot: musig sessions exist after the resync")
	if lc.musigSessions == nil || lc.musigSessions.RemoteSession == nil || lc.musigSessions.LocalSession == nil {
		return
	}
	want := x.nonce
	if p.skipInit {
		want = p.prevNonce
	}
	vAssert(lc.musigSessions.RemoteSession.nonces.VerificationNonce.PubNonce == want,
		"taproot: the session for the peer's commitment is bound to the nonce of this channel_reestablish")
	vAssert(lc.musigSessions.LocalSession.nonces.VerificationNonce.PubNonce == p.localNonce.PubNonce,
		"taproot: the session for our commitment keeps our verification nonce")
	if !p.skipInit {
		vAssert(lc.pendingVerificationNonce == nil, "taproot: the pending nonce is consumed")
	}
	diff := p.store.diff
	resent := false
	for _, m := range res.msgs {
		if cs, ok := m.(*lnwire.CommitSig); ok && diff != nil && cs == diff.CommitSig {
			resent = true
			vAssert(cs.PartialSig.IsSome(), "taproot: the retransmitted commitment_signed carries a partial signature")
			if !vNative() {
				vAssert(c03Musig.calls == 1 && c03Musig.tx == diff.Commitment.CommitTx &&
					c03Musig.session == lc.musigSessions.RemoteSession && c03Musig.remote == want,
					"taproot: the stored commitment is re-signed once, in the remote session, under the fresh nonce")
			}
			vReach("taproot-resigned")
		}
		if rev, ok := m.(*lnwire.RevokeAndAck); ok {
			n, err := chanstate.NewMusigVerificationNonce(
				lc.channelState.LocalChanCfg.MultiSigKey.PubKey, p.localH+1, lc.taprootNonceProducer,
			)
			okN := err == nil
			if okN {
				if p.ct.IsTaprootFinal() {
					d := rev.LocalNonces.UnwrapOr(lnwire.LocalNoncesData{})
					got, has := d.NoncesMap[p.outpoint.Hash]
					okN = rev.LocalNonces.IsSome() && has && got == n.PubNonce && len(d.NoncesMap) == 1 && rev.LocalNonce.IsNone()
				} else {
					okN = rev.LocalNonce.IsSome() && rev.LocalNonce.ValOpt().UnwrapOr(lnwire.Musig2Nonce{}) == n.PubNonce && rev.LocalNonces.IsNone()
				}
			}
			vAssert(okN, "taproot: the retransmitted revocation carries the verification nonce for local height+1 in the field of its channel type")
			vReach("taproot-revocation-nonce")
		}
	}
	if !resent && !vNative() {
		vAssert(c03Musig.calls == 0, "taproot: nothing is signed unless a commitment is retransmitted")
	}
}

func c03TableTaproot(kinds int, slim bool) {
	c03Config()
	vAssumption("C03 taproot domain: staging and final taproot types; remote nonce absent / legacy field / map with or without the funding txid; skipNonceInit on (sessions pre-exist) or off; no pending+window (SignNextCommitment not reached); MuSig2 partial signatures opaque")
	p := c03SymParty(1, 2)
	vAssume(!(p.pending() && p.window()))
	p.ct = c03TaprootType(vChoice("chanType", 2))
	p.skipInit = vBool("skipNonceInit")
	p.prevNonce = c03RemoteNonce("earlierRemoteNonce")
	c03Musig.calls, c03Musig.tx, c03Musig.session = 0, nil, nil
	c03Musig.scalar = vU32("partialSigScalar")
	x := c03SymMsg(p)
	if slim {
		// quick tier: the nonce plumbing does not interact with the
		// data-loss-protect fields, store failures or the restored flag (those
		// are VerifC03Table's subject and are re-checked on taproot types in
		// the thorough tier)
		vAssumption("C03 taproot quick slice: recovery fields present with the correct secret, channel not restored, store read succeeds")
		vAssume(x.hasOpts && x.secretCorrect && !p.restored && !p.store.tipFails)
	}
	c03MsgNonces(p, x, kinds)
	f := c03Reference(p, x)
	// taproot: next_local_nonce must be present for the funding output
	f.nonceBad = x.nonceKind == 0 || x.nonceKind == 3
	lc := c03Chan(p)
	res := c03Process(lc, x.m)
	c03Check("", p, x, f, res)
	if res.err == nil {
		c03TaprootPost(lc, p, x, res)
	}
}

func VerifC03TableTaproot()         { c03TableTaproot(5, true) }
func VerifC03TableTaprootThorough() { c03TableTaproot(5, false) }
