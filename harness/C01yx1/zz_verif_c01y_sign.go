package lnwallet

// Harness for C01, stage 3b (staging directory C01y): the CALLERS of the HTLC
// signature job generators.
//
// Units executed symbolically (real lnd code):
//   signer   A: (*LightningChannel).SignNextCommitment end to end: oweCommitment,
//               the ErrNoWindow check, the acked-index lookup on the local chain
//               tail, DeriveCommitmentKeys(RemoteNextRevocation, Remote, ...),
//               fetchCommitmentView(Remote, ...), the lease-expiry lookup,
//               genRemoteHtlcSigJobs, the two slices.SortFunc by output index,
//               the commitment signature through lc.Signer.SignOutputRaw(lc.signDesc),
//               the collection of the HTLC signatures from the job response
//               channels, createCommitDiff, OpenChannel.AppendRemoteCommitChain,
//               commitmentChain.addCommitment;
//   verifier B: (*LightningChannel).ReceiveNewCommitment end to end: the
//               acked-index lookup on the remote chain tail, RevocationProducer.AtIndex(
//               currentHeight+1), DeriveCommitmentKeys(point, Local, ...),
//               fetchCommitmentView(Local, ...), the lease-expiry lookup,
//               genHtlcSigValidationJobs on the HtlcSigs of A's CommitSigs, the
//               commitment sighash over lc.signDesc.WitnessScript / Capacity, the
//               loop over the verification responses, addCommitment.
// A's *NewCommitState.CommitSigs is handed to B unchanged.
//
// Replaced in the symbolic run only (native replay runs the real functions):
//   (*SigPool).SubmitSignBatch / SubmitVerifyBatch: every job is processed at
//     once exactly as poolWorker does (SignOutputRaw + NewSigFromSignature, the
//     response sent on job.Resp; SigHash + Sig.Verify, nil or *HtlcIndexErr sent
//     on the error channel). Natively a real SigPool (1 worker) is started.
//   lnwire.NewSigFromSignature / (*Sig).ToSignature / (*Sig).ToSignatureBytes:
//     the ideal signature travels in the 64 wire bytes.
//   input.ComputeCommitmentPoint, input.TweakPubKey, input.SingleTweakBytes,
//     input.DeriveRevocationPubkey: injective ideal functions of key identities.
//   (*LightningChannel).validateCommitmentSanity: returns nil (the constraint
//     check is not part of this claim; natively the real one runs and passes).
//   everything c01sCfg replaces (ideal scripts and digests).
//
// Ideal signatures: sig = idealsig(identity of the signing key, digest), an
// injective uninterpreted function; Verify recomputes it. The fake input.Signer
// computes the digest from (tx, SignDescriptor) as lnwallet/btcwallet.SignOutputRaw
// does, the signing key is KeyDesc.PubKey tweaked by SingleTweak. Natively the
// signer is input.MockSigner over real secp256k1 private keys: real ECDSA
// signatures, real verification.

import (
	"bytes"
	"context"
	"fmt"
	"io"

	"github.com/btcsuite/btcd/btcec/v2"
	"github.com/btcsuite/btcd/chaincfg/v2"
	"github.com/btcsuite/btcd/chainhash/v2"
	"github.com/btcsuite/btcd/txscript/v2"
	"github.com/btcsuite/btcd/wire/v2"
	"github.com/lightningnetwork/lnd/chanstate"
	"github.com/lightningnetwork/lnd/input"
	"github.com/lightningnetwork/lnd/lntypes"
	"github.com/lightningnetwork/lnd/lnwire"
)

// ---------------------------------------------------------------------------
// keys
// ---------------------------------------------------------------------------

const (
	c01yMulti = iota
	c01yRev
	c01yPay
	c01yDelay
	c01yHtlc
	c01yNBase
)

var c01yBase [2][c01yNBase]*btcec.PublicKey
var c01yPriv []*btcec.PrivateKey

func c01yReg(k *btcec.PublicKey, id []byte) *btcec.PublicKey {
	c01sKeyTab = append(c01sKeyTab, c01sKeyEnt{k: k, id: id})
	return k
}

func c01yInitKeys() {
	c01sInitKeys()
	c01sInitTweaks()
	c01yPriv = nil
	for p := 0; p < 2; p++ {
		for i := 0; i < c01yNBase; i++ {
			if vNative() {
				var seed [32]byte
				seed[0], seed[30], seed[31] = 0x59, byte(p+1), byte(i+1)
				priv, pub := btcec.PrivKeyFromBytes(seed[:])
				c01yBase[p][i] = pub
				c01yPriv = append(c01yPriv, priv)
			} else {
				id := make([]byte, 32)
				id[0], id[30], id[31] = 0x59, byte(p+1), byte(i+1)
				c01yBase[p][i] = c01yReg(new(btcec.PublicKey), id)
			}
		}
	}
}

// per-commitment secret of B at height h: ideal function
func c01ySec(h uint64) *chainhash.Hash {
	var r chainhash.Hash
	copy(r[:], vHash("c01ysec", 32, c01sU64(h)))
	return &r
}

type c01yProducer struct{}

func (p *c01yProducer) AtIndex(h uint64) (*chainhash.Hash, error) { return c01ySec(h), nil }
func (p *c01yProducer) Encode(io.Writer) error                    { return nil }

// stand-ins for the EC operations of package input (symbolic run only)
func c01yComputeCommitmentPoint(secret []byte) *btcec.PublicKey {
	return c01yReg(new(btcec.PublicKey), vHash("c01ycommitpoint", 32, secret))
}

func c01ySingleTweakBytes(commitPoint, basePoint *btcec.PublicKey) []byte {
	return vHash("c01ysingletweak", 32, c01sKID(commitPoint), c01sKID(basePoint))
}

func c01yTweaked(base *btcec.PublicKey, tweak []byte) []byte {
	return vHash("c01ytweaked", 32, c01sKID(base), tweak)
}

func c01yTweakPubKey(basePoint, commitPoint *btcec.PublicKey) *btcec.PublicKey {
	return c01yReg(new(btcec.PublicKey), c01yTweaked(basePoint, c01ySingleTweakBytes(commitPoint, basePoint)))
}

func c01yDeriveRevocationPubkey(revokeBase, commitPoint *btcec.PublicKey) *btcec.PublicKey {
	return c01yReg(new(btcec.PublicKey), vHash("c01yrevkey", 32, c01sKID(revokeBase), c01sKID(commitPoint)))
}

func c01yPoint(secret []byte) *btcec.PublicKey {
	if vNative() {
		return input.ComputeCommitmentPoint(secret)
	}
	return c01yComputeCommitmentPoint(secret)
}

// ---------------------------------------------------------------------------
// ideal signatures
// ---------------------------------------------------------------------------

type c01ySig struct{ b []byte }

func c01yIdealSig(keyID, digest []byte) []byte {
	b := make([]byte, 64)
	copy(b[:32], vHash("c01yidealsig", 32, keyID, digest))
	b[63] = 1
	return b
}

func (s *c01ySig) Serialize() []byte { return s.b }
func (s *c01ySig) Verify(digest []byte, key *btcec.PublicKey) bool {
	return bytes.Equal(s.b, c01yIdealSig(c01sKID(key), digest))
}

func c01yNewSigFromSignature(e input.Signature) (lnwire.Sig, error) {
	is, ok := e.(*c01ySig)
	if !ok || is == nil {
		return lnwire.Sig{}, fmt.Errorf("c01y: not an ideal signature")
	}
	return lnwire.NewSigFromWireECDSA(is.b)
}

func c01yToSignature(s *lnwire.Sig) (input.Signature, error) {
	return &c01ySig{b: append([]byte(nil), s.RawBytes()...)}, nil
}

func c01yToSignatureBytes(s *lnwire.Sig) []byte {
	return append([]byte(nil), s.RawBytes()...)
}

// c01ySigner: the wallet signer of one party.
type c01ySigner struct {
	input.Signer // MuSig2 / ComputeInputScript: unused (nil)
	mock         *input.MockSigner
	calls        int
}

func (s *c01ySigner) SignOutputRaw(tx *wire.MsgTx, d *input.SignDescriptor) (input.Signature, error) {
	s.calls++
	if vNative() {
		return s.mock.SignOutputRaw(tx, d)
	}
	if d.DoubleTweak != nil || d.Output == nil {
		return nil, fmt.Errorf("c01y: unexpected sign descriptor")
	}
	keyID := c01sKID(d.KeyDesc.PubKey)
	if d.SingleTweak != nil {
		keyID = c01yTweaked(d.KeyDesc.PubKey, d.SingleTweak)
	}
	digest := c01sSignDigest(&SignJob{SignDesc: *d, Tx: tx})
	if digest == nil {
		return nil, fmt.Errorf("c01y: no digest")
	}
	return &c01ySig{b: c01yIdealSig(keyID, digest)}, nil
}

// ---------------------------------------------------------------------------
// the sig pool, processed synchronously (symbolic run only)
// ---------------------------------------------------------------------------

func c01ySubmitSignBatch(s *SigPool, signJobs []SignJob) {
	for _, job := range signJobs {
		rawSig, err := s.signer.SignOutputRaw(job.Tx, &job.SignDesc)
		if err != nil {
			job.Resp <- SignJobResp{Sig: lnwire.Sig{}, Err: err}
			continue
		}
		sig, err := lnwire.NewSigFromSignature(rawSig)
		job.Resp <- SignJobResp{Sig: sig, Err: err}
	}
}

func c01ySubmitVerifyBatch(s *SigPool, verifyJobs []VerifyJob,
	cancelChan chan struct{}) <-chan *HtlcIndexErr {

	errChan := make(chan *HtlcIndexErr, len(verifyJobs))
	for _, job := range verifyJobs {
		job.Cancel = cancelChan
		job.ErrResp = errChan
		verifyMsg := job
		sigHash, err := verifyMsg.SigHash()
		if err != nil {
			errChan <- &HtlcIndexErr{error: err, VerifyJob: &verifyMsg}
			continue
		}
		if !verifyMsg.Sig.Verify(sigHash, verifyMsg.PubKey) {
			errChan <- &HtlcIndexErr{error: fmt.Errorf("invalid signature"), VerifyJob: &verifyMsg}
		} else {
			errChan <- nil
		}
	}
	return errChan
}

func c01yNoSanity(lc *LightningChannel, theirLogCounter, ourLogCounter uint64,
	whoseCommitChain lntypes.ChannelParty, buffer BufferType,
	predictOurAdd, predictTheirAdd *paymentDescriptor) error {

	return nil
}

// ---------------------------------------------------------------------------
// store
// ---------------------------------------------------------------------------

type c01yStore struct {
	chanstate.Store
	diffs []*chanstate.CommitDiff
}

func (s *c01yStore) AppendRemoteCommitChain(ch *chanstate.OpenChannel, d *chanstate.CommitDiff) error {
	s.diffs = append(s.diffs, d)
	return nil
}

// ---------------------------------------------------------------------------
// configuration
// ---------------------------------------------------------------------------

func c01yCfg() {
	c01sCfg()
	const in = "github.com/lightningnetwork/lnd/input."
	const me = "github.com/lightningnetwork/lnd/lnwallet."
	const lw = "github.com/lightningnetwork/lnd/lnwire."
	vReplace(in+"ComputeCommitmentPoint", me+"c01yComputeCommitmentPoint")
	vReplace(in+"TweakPubKey", me+"c01yTweakPubKey")
	vReplace(in+"SingleTweakBytes", me+"c01ySingleTweakBytes")
	vReplace(in+"DeriveRevocationPubkey", me+"c01yDeriveRevocationPubkey")
	vReplace("(*"+me+"SigPool).SubmitSignBatch", me+"c01ySubmitSignBatch")
	vReplace("(*"+me+"SigPool).SubmitVerifyBatch", me+"c01ySubmitVerifyBatch")
	vReplace(lw+"NewSigFromSignature", me+"c01yNewSigFromSignature")
	vReplace("(*"+lw+"Sig).ToSignature", me+"c01yToSignature")
	vReplace("(*"+lw+"Sig).ToSignatureBytes", me+"c01yToSignatureBytes")
	vReplace("(*"+me+"LightningChannel).validateCommitmentSanity", me+"c01yNoSanity")
	for _, uf := range []string{"c01ysec", "c01ycommitpoint", "c01ysingletweak", "c01ytweaked", "c01yrevkey", "c01yidealsig", "c01yfundingscript", "bip143digest"} {
		vInjective(uf)
	}
	vAssumption("C01y: ideal signatures: a signature is an injective uninterpreted function of (identity of the signing key, digest) carried in the 64 wire bytes; Verify recomputes it (lnwire.NewSigFromSignature, Sig.ToSignature, Sig.ToSignatureBytes replaced accordingly); the fake input.Signer computes its digest from (tx, SignDescriptor) as lnwallet/btcwallet.SignOutputRaw does and signs with KeyDesc.PubKey tweaked by SingleTweak. Native replay: input.MockSigner over real private keys, real ECDSA")
	vAssumption("C01y: SigPool.SubmitSignBatch / SubmitVerifyBatch process every job synchronously the way SigPool.poolWorker does (symbolic run); native replay starts a real SigPool with one worker over the same signer")
	vAssumption("C01y: input.ComputeCommitmentPoint, TweakPubKey, SingleTweakBytes, DeriveRevocationPubkey are injective uninterpreted functions of key identities / secrets; B's per-commitment secrets are an injective ideal function of the height behind shachain.Producer; A holds point(secret_B(height+1)) as RemoteNextRevocation")
	vAssumption("C01y: validateCommitmentSanity is skipped in the symbolic run (constraints of the channel config are not part of this claim); chanstate.Store is a fake that records the CommitDiff")
}

// ---------------------------------------------------------------------------
// the two channels
// ---------------------------------------------------------------------------

func c01yFundingScript() []byte {
	if vNative() {
		s, err := input.GenMultiSigScript(
			c01yBase[0][c01yMulti].SerializeCompressed(), c01yBase[1][c01yMulti].SerializeCompressed(),
		)
		if err != nil {
			panic(err)
		}
		return s
	}
	return vHash("c01yfundingscript", 71, c01sKID(c01yBase[0][c01yMulti]), c01sKID(c01yBase[1][c01yMulti]))
}

type c01yParty struct {
	lc     *LightningChannel
	signer *c01ySigner
	store  *c01yStore
}

func c01yChan(s *c01sScn, p int) *c01yParty {
	lc := c01sChan(s, p)
	st := lc.channelState
	cfgs := [2]*chanstate.ChannelConfig{&st.LocalChanCfg, &st.RemoteChanCfg}
	for i, cfg := range cfgs {
		q := p
		if i == 1 {
			q = 1 - p
		}
		cfg.MultiSigKey.PubKey = c01yBase[q][c01yMulti]
		cfg.RevocationBasePoint.PubKey = c01yBase[q][c01yRev]
		cfg.PaymentBasePoint.PubKey = c01yBase[q][c01yPay]
		cfg.DelayBasePoint.PubKey = c01yBase[q][c01yDelay]
		cfg.HtlcBasePoint.PubKey = c01yBase[q][c01yHtlc]
		cfg.MaxAcceptedHtlcs = 483
		cfg.MaxPendingAmount = lnwire.MilliSatoshi(1) << 62
	}
	store := &c01yStore{}
	st.Db = store
	signer := &c01ySigner{}
	if vNative() {
		signer.mock = input.NewMockSigner(c01yPriv, &chaincfg.RegressionNetParams)
		lc.sigPool = NewSigPool(1, signer)
		if err := lc.sigPool.Start(); err != nil {
			panic(err)
		}
	} else {
		lc.sigPool = &SigPool{signer: signer}
	}
	lc.Signer = signer
	fund := c01yFundingScript()
	pk, err := input.WitnessScriptHash(fund)
	if err != nil {
		panic(err)
	}
	lc.signDesc = &input.SignDescriptor{
		KeyDesc:       st.LocalChanCfg.MultiSigKey,
		WitnessScript: fund,
		Output:        &wire.TxOut{PkScript: pk, Value: int64(st.Capacity)},
		HashType:      txscript.SigHashAll,
		InputIndex:    0,
	}
	return &c01yParty{lc: lc, signer: signer, store: store}
}

// ---------------------------------------------------------------------------
// the check
// ---------------------------------------------------------------------------

func c01yCheck(s *c01sScn) {
	vs := &s.vs
	ct := vs.ct
	c01sNonDust(s)

	// ---- validity of the pre-state: as in c01sCheck ----
	ref := c01RefView(vs)
	n := int64(len(vs.logs[0]) + len(vs.logs[1]))
	fee := c01RefCommitFee(ct, vs.feePerKw, n)
	vAssume(ref.bal[0] >= 0 && ref.bal[1] >= 0)
	vAssume(ref.bal[vs.opener] >= fee*1000)
	var after [2]int64
	after[0], after[1] = ref.bal[0], ref.bal[1]
	after[vs.opener] = after[vs.opener] - fee*1000
	vAssume(after[0]/1000 >= vs.dust[c01sX] && after[1]/1000 >= vs.dust[c01sX])
	outSum := after[0]/1000 + after[1]/1000
	if ct&c01BitAnchors != 0 {
		outSum = outSum + 660
	}
	for q := 0; q < 2; q++ {
		for i := range vs.logs[q] {
			outSum = outSum + int64(vs.logs[q][i].amt/1000)
		}
	}
	vLemma(outSum+fee <= vs.capacity, "outputs + fee never exceed the capacity")
	vLemma(fee*4 >= c01RefCommitFee(ct, 1000, n), "the BOLT-3 fee at >= 253 sat/kw is at least 250 sat/kw on the BOLT-3 weight")

	pa, pb := c01yChan(s, 0), c01yChan(s, 1)
	A, B := pa.lc, pb.lc

	// A knows B's next per-commitment point; B derives it from its producer
	A.channelState.RemoteNextRevocation = c01yPoint(c01ySec(vs.height + 1)[:])
	B.channelState.RevocationProducer = &c01yProducer{}
	B.currentHeight = vs.height
	// B's updates are acked by A (they are on A's own commitment), A's
	// updates were received by B: both sides put all pending HTLCs on B's
	// next commitment
	ta := A.commitChains.Local.tail()
	ta.messageIndices.Remote = A.updateLogs.Remote.logIndex
	ta.theirHtlcIndex = A.updateLogs.Remote.htlcCounter
	tb := B.commitChains.Remote.tail()
	tb.messageIndices.Local = B.updateLogs.Local.logIndex
	tb.ourHtlcIndex = B.updateLogs.Local.htlcCounter

	// ---- A signs ----
	state, err := A.SignNextCommitment(context.Background())
	vObserve("signErr", err != nil)
	vAssert(err == nil && state != nil && state.CommitSigs != nil, "SignNextCommitment succeeds on an honest state")
	if err != nil || state == nil || state.CommitSigs == nil {
		return
	}
	vObserve("htlcSigs", len(state.HtlcSigs))
	vAssert(int64(len(state.HtlcSigs)) == n, "one HTLC signature per untrimmed HTLC in the CommitSig")
	vAssert(len(pa.store.diffs) == 1 && pa.store.diffs[0].CommitSig != nil &&
		len(pa.store.diffs[0].CommitSig.HtlcSigs) == len(state.HtlcSigs) &&
		pa.store.diffs[0].Commitment.CommitHeight == vs.height+1,
		"the stored CommitDiff carries the same signatures and the next height of the remote chain")
	vAssert(int64(pa.signer.calls) == n+1, "the signer was asked for the commitment signature and one signature per HTLC")

	// ---- B verifies what A sent ----
	errB := B.ReceiveNewCommitment(state.CommitSigs)
	vObserve("recvErr", errB != nil)
	var badCommit *InvalidCommitSigError
	var badHtlc *InvalidHtlcSigError
	if errB != nil {
		badCommit, _ = errB.(*InvalidCommitSigError)
		badHtlc, _ = errB.(*InvalidHtlcSigError)
	}
	vAssert(badCommit == nil, "the commitment signature A produced verifies at B")
	vAssert(badHtlc == nil, "every HTLC signature A produced verifies at B (i-th wire signature against the i-th job)")
	vAssert(errB == nil, "ReceiveNewCommitment accepts the CommitSig of an honest peer")
	if errB != nil {
		return
	}
	tip := B.commitChains.Local.tip()
	vAssert(tip.height == vs.height+1 && A.commitChains.Remote.tip().height == vs.height+1,
		"both sides extended B's chain to the same height")
	vAssert(tip.txn.TxHash() == A.commitChains.Remote.tip().txn.TxHash(), "both sides hold the identical commitment transaction")

	if vNative() {
		A.sigPool.Stop()
		B.sigPool.Stop()
	}

	vReach("accepted")
	if len(vs.logs[c01sX]) > 0 {
		vReach("timeout-tx")
	}
	if len(vs.logs[1-c01sX]) > 0 {
		vReach("success-tx")
	}
	if n == 2 {
		vReach("two-htlcs")
	}
	if ct&c01sBitLease != 0 && vs.opener == c01sX {
		vReach("lease-owner-is-initiator")
	}
	if ct&c01sBitLease != 0 && vs.opener != c01sX {
		vReach("lease-owner-not-initiator")
	}
	if len(vs.logs[0]) == 1 && len(vs.logs[1]) == 1 && vs.logs[0][0].amt/1000 > vs.logs[1][0].amt/1000 {
		// A assembles its own HTLC first, B's comes first on the sorted transaction
		vReach("sorted-order-differs-from-signer-order")
	}
}

func c01ySign(types, openers, shapes, rates []int) {
	c01yCfg()
	c01yInitKeys()
	var s c01sScn
	c01sScenario(&s, types, openers, shapes, rates)
	c01yCheck(&s)
}

// Channel types: 0 legacy, 1 tweakless, 2 anchors, 3 zero-fee-htlc anchors,
// 4 script-enforced lease. Shapes (HTLCs offered by A, by B; the commitment is
// B's): 0 = (1,0), 1 = (0,1), 2 = (1,1), 3 = (2,0), 4 = (0,2).

// script-enforced lease, either party as initiator, one HTLC in either direction
func VerifC01ySignLease() {
	c01ySign([]int{4}, []int{0, 1}, []int{0, 1}, []int{0})
}

// script-enforced lease, either initiator, one HTLC per direction (two signatures)
func VerifC01ySignLease2() {
	c01ySign([]int{4}, []int{0, 1}, []int{2}, []int{0})
}

// zero-fee-htlc anchors, one HTLC in either direction and one per direction
func VerifC01ySignZeroFee() {
	c01ySign([]int{3}, []int{0}, []int{0, 1, 2}, []int{0})
}

// thorough: legacy, tweakless, anchors, zero-fee, lease; either initiator; all five shapes
func VerifC01ySignAll() {
	c01ySign([]int{0, 1, 2, 3, 4}, []int{0, 1}, []int{0, 1, 2, 3, 4}, []int{0})
}
