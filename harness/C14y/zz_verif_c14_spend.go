package chainntnfs

// Harness for C14, spend side: RegisterSpend, UpdateSpendDetails, ConnectTip,
// filterTx (spend filter), handleSpendDetailsAtTip, NotifyHeight,
// dispatchSpendDetails, DisconnectTip, dispatchSpendReorg, updateHints,
// unspentRequests. The watched outpoint pays to a Taproot script (so the
// request matches on the outpoint alone, which is what lnd does for Taproot
// channels); two conflicting transactions S0 and S1 spend it.

import (
	"github.com/btcsuite/btcd/btcutil/v2"
	"github.com/btcsuite/btcd/chainhash/v2"
	"github.com/btcsuite/btcd/wire/v2"
)

// c14Taproot is OP_1 <32-byte key>.
var c14Taproot = []byte{
	0x51, 0x20,
	0x07, 0x07, 0x07, 0x07, 0x07, 0x07, 0x07, 0x07, 0x07, 0x07, 0x07, 0x07, 0x07, 0x07, 0x07, 0x07,
	0x07, 0x07, 0x07, 0x07, 0x07, 0x07, 0x07, 0x07, 0x07, 0x07, 0x07, 0x07, 0x07, 0x07, 0x07, 0x07,
}

// c14Spender builds a transaction whose input #1 spends op with a witness.
func c14Spender(tag byte, op wire.OutPoint) *wire.MsgTx {
	tx := wire.NewMsgTx(2)
	var prev chainhash.Hash
	prev[0] = 0x80 | tag
	tx.AddTxIn(&wire.TxIn{PreviousOutPoint: wire.OutPoint{Hash: prev, Index: 0}, Sequence: 0xffffffff})
	tx.AddTxIn(&wire.TxIn{PreviousOutPoint: op, Witness: wire.TxWitness{{0x01}}, Sequence: 0xffffffff})
	tx.AddTxOut(&wire.TxOut{Value: 500 + int64(tag), PkScript: c14Script})
	return tx
}

const (
	c14SOpSpend0     = 0 // connect a block containing spender S0
	c14SOpSpend1     = 1 // connect a block containing the conflicting spender S1
	c14SOpConnect    = 2 // connect a block with a decoy only
	c14SOpDisconnect = 3
)

type c14SpendWorld struct {
	n     *TxNotifier
	hints *c14Hints
	h0    uint32
	limit uint32
	op    wire.OutPoint
	sp    [2]*wire.MsgTx
	spH   [2]chainhash.Hash
	req   SpendRequest
	lazy  bool

	blocks []*btcutil.Block
	who    []int // which spender block i contains, -1 none
	maxTip int
	nonce  uint32

	reg        *SpendRegistration
	registered bool
	spent      bool // reference: the client has to believe "spent"
	done       bool
	reorgSeen  bool // a Reorg was delivered earlier
	finalAtReg bool // see c14Client.finalAtReg
}

func (w *c14SpendWorld) tipOff() int { return len(w.blocks) }
func (w *c14SpendWorld) tip() uint32 { return w.h0 + uint32(len(w.blocks)) }

// incl returns the 1-based offset of the active block with a spender, 0 if
// the outpoint is unspent on the active chain.
func (w *c14SpendWorld) incl() int {
	for i, s := range w.who {
		if s >= 0 {
			return i + 1
		}
	}
	return 0
}

func (w *c14SpendWorld) connect(s int) {
	w.nonce++
	decoy := c14Tx(byte(16+w.nonce), c14Script)
	var blk *btcutil.Block
	if s >= 0 {
		blk = c14Block(w.nonce, decoy, w.sp[s])
	} else {
		blk = c14Block(w.nonce, decoy)
	}
	h := w.tip() + 1
	err := w.n.ConnectTip(blk, h)
	vAssert(err == nil, "ConnectTip of the next height fails")
	err = w.n.NotifyHeight(h)
	vAssert(err == nil, "NotifyHeight fails")
	w.blocks = append(w.blocks, blk)
	w.who = append(w.who, s)
	if len(w.blocks) > w.maxTip {
		w.maxTip = len(w.blocks)
	}
	w.check(c14KindConnect, false)
}

func (w *c14SpendWorld) disconnect() {
	vAssume(uint32(w.maxTip-w.tipOff()) < w.limit) // see c14World.disconnect
	h := w.tip()
	last := len(w.blocks) - 1
	was := w.who[last] >= 0
	err := w.n.DisconnectTip(h)
	vAssert(err == nil, "DisconnectTip of the tip fails")
	w.blocks = w.blocks[:last]
	w.who = w.who[:last]
	w.check(c14KindDisconnect, was)
}

func (w *c14SpendWorld) details(off int) *SpendDetail {
	s := w.who[off-1]
	op := w.op
	return &SpendDetail{
		SpentOutPoint:     &op,
		SpenderTxHash:     &w.spH[s],
		SpendingTx:        w.sp[s],
		SpenderInputIndex: 1,
		SpendingHeight:    int32(w.h0 + uint32(off)),
	}
}

func (w *c14SpendWorld) register(hint uint32) {
	op := w.op
	reg, err := w.n.RegisterSpend(&op, c14Taproot, hint)
	vAssert(err == nil && reg != nil, "RegisterSpend with valid parameters fails")
	w.reg = reg
	w.registered = true
	vAssert(reg.Height == w.tip(), "registration reports a height that is not the tip")
	incl := w.incl()
	if incl != 0 {
		w.finalAtReg = w.h0+uint32(incl)+w.limit <= w.tip()
	}
	if d := reg.HistoricalDispatch; d != nil {
		vReach("spend-historical-rescan")
		vAssert(d.EndHeight == w.tip(), "historical rescan does not end at the tip")
		var det *SpendDetail
		if incl != 0 {
			ih := w.h0 + uint32(incl)
			vAssert(d.StartHeight <= ih, "historical rescan starts above the block that spends the outpoint")
			det = w.details(incl)
		}
		err = w.n.UpdateSpendDetails(d.SpendRequest, det)
		vAssert(err == nil, "UpdateSpendDetails fails")
	} else {
		vAssert(incl == 0, "no historical rescan although the outpoint is already spent in the chain")
	}
	w.check(c14KindRegister, false)
}

func (w *c14SpendWorld) readSpend() int {
	incl := w.incl()
	nSp := 0
	for more := true; more; {
		select {
		case d := <-w.reg.Event.Spend:
			nSp++
			vAssert(d != nil, "nil spend details")
			vAssert(incl != 0, "Spend delivered although the outpoint is unspent on the active chain")
			if incl != 0 && d != nil {
				s := w.who[incl-1]
				vAssert(d.SpendingHeight == int32(w.h0+uint32(incl)), "Spend carries a height that is not the spending block of the active chain")
				vAssert(d.SpendingTx == w.sp[s], "Spend carries a transaction that is not the spender on the active chain")
				vAssert(d.SpenderTxHash != nil && *d.SpenderTxHash == w.spH[s], "Spend carries a spender hash that is not the spender on the active chain")
				vAssert(d.SpentOutPoint != nil && *d.SpentOutPoint == w.op, "Spend carries another outpoint")
				vAssert(d.SpenderInputIndex == 1, "Spend carries a wrong input index")
				if s == 1 {
					vReach("spent-by-conflicting-tx")
				}
			}
		default:
			more = false
		}
	}
	return nSp
}

func (w *c14SpendWorld) readReorg() int {
	n := 0
	for more := true; more; {
		select {
		case <-w.reg.Event.Reorg:
			n++
		default:
			more = false
		}
	}
	return n
}

func (w *c14SpendWorld) readDone() int {
	n := 0
	for more := true; more; {
		select {
		case <-w.reg.Event.Done:
			n++
		default:
			more = false
		}
	}
	return n
}

func (w *c14SpendWorld) check(kind int, disconnectedIncl bool) {
	if !w.registered {
		return
	}
	incl := w.incl()
	inclH := w.h0 + uint32(incl)
	tip := w.tip()
	before := w.spent
	if disconnectedIncl {
		w.spent = false
	}
	if incl != 0 {
		w.spent = true
	}
	if !w.lazy {
		want := 0
		if w.spent && !before {
			want = 1
		}
		nSp := w.readSpend()
		vAssert(nSp == want, "number of Spend events differs from the reference chain (missing or duplicated spend notification)")
		if nSp == 1 {
			vReach("spend")
			if kind == c14KindRegister {
				vReach("spend-at-registration")
			}
			if w.reorgSeen {
				vReach("spend-again-after-reorg")
			}
		}
		nRe := w.readReorg()
		if nRe > 0 {
			w.reorgSeen = true
		}
		wantRe := 0
		if disconnectedIncl && before {
			wantRe = 1
			vReach("spend-reorg")
		}
		vAssert(nRe == wantRe, "number of Reorg events differs from the reference chain (spending block disconnected <=> one Reorg)")
		nDone := w.readDone()
		mature := incl != 0 && kind == c14KindConnect && tip == inclH+w.limit
		if nDone != 0 {
			vReach("spend-done")
			vAssert(nDone == 1 && mature && !w.done, "Done delivered although the spending block is not exactly at the reorg safety limit")
			w.done = true
		} else {
			vAssert(w.done || w.finalAtReg || !mature, "spending block reached the reorg safety limit but Done was not delivered")
		}
	}

	// persisted spend hint
	hint, herr := w.hints.QuerySpendHint(w.req)
	if herr == nil {
		if incl != 0 {
			vAssert(hint <= inclH, "persisted spend hint exceeds the height at which the outpoint is spent on the active chain")
			if hint == inclH {
				vReach("spend-hint-at-inclusion")
			}
		} else {
			vAssert(hint <= tip+1, "persisted spend hint exceeds the next block height while the outpoint is unspent")
			if kind == c14KindDisconnect {
				vReach("spend-hint-lowered-by-reorg")
			}
		}
	}
}

func (w *c14SpendWorld) checkLazy() {
	nSp := w.readSpend()
	want := 0
	if w.spent {
		want = 1
	}
	vAssert(nSp == want, "late reader: pending Spend events do not match the active chain")
	if nSp == 1 {
		vReach("lazy-spend")
	}
	nRe := w.readReorg()
	vAssert(nRe <= 1 && (nRe == 0 || nSp == 0), "late reader: Reorg pending together with Spend")
	if nRe == 1 {
		vAssert(w.incl() == 0, "late reader: Reorg pending although the outpoint is spent on the active chain")
		vReach("lazy-reorg")
	}
	nDone := w.readDone()
	incl := w.incl()
	vAssert(nDone <= 1 && (nDone == 0 || (incl != 0 && w.h0+uint32(w.maxTip) >= w.h0+uint32(incl)+w.limit)),
		"late reader: Done pending although the spending block never reached the reorg safety limit")
}

func (w *c14SpendWorld) restart(hint uint32) {
	n2 := NewTxNotifier(w.tip(), w.limit, w.hints, w.hints)
	op := w.op
	reg, err := n2.RegisterSpend(&op, c14Taproot, hint)
	vAssert(err == nil && reg != nil, "RegisterSpend after restart fails")
	incl := w.incl()
	if incl != 0 {
		vReach("spend-restart-included")
		d := reg.HistoricalDispatch
		vAssert(d != nil, "after restart: no historical rescan although the outpoint is spent in the chain")
		if d != nil {
			ih := w.h0 + uint32(incl)
			vAssert(d.StartHeight <= ih && ih <= d.EndHeight, "after restart: rescan range from the persisted hint misses the spending block")
		}
	}
}

func c14RunSpend(T int, regs int, lazy bool) {
	c14Common()
	var ops [8]int
	for i := 0; i < T; i++ {
		ops[i] = vChoice("op", 4)
	}
	regAt := vChoice("reg", regs)
	// prune scripts that are not chains: at most one spender of the outpoint
	// in the active chain, no disconnect below the start height.
	{
		depth := 0
		var has [9]bool
		for i := 0; i < T; i++ {
			switch ops[i] {
			case c14SOpSpend0, c14SOpSpend1:
				for j := 0; j < depth; j++ {
					vAssume(!has[j])
				}
				has[depth] = true
				depth++
			case c14SOpConnect:
				has[depth] = false
				depth++
			case c14SOpDisconnect:
				vAssume(depth > 0)
				depth--
			}
		}
	}
	h0, limit, hint := c14Heights(1)

	hints := newC14Hints()
	w := &c14SpendWorld{
		n:     NewTxNotifier(h0, limit, hints, hints),
		hints: hints,
		h0:    h0,
		limit: limit,
		lazy:  lazy,
	}
	w.op.Hash[0] = 0x55
	w.op.Index = 3
	for s := 0; s < 2; s++ {
		w.sp[s] = c14Spender(byte(s), w.op)
		w.spH[s] = w.sp[s].TxHash()
	}
	op := w.op
	req, rerr := NewSpendRequest(&op, c14Taproot)
	vAssert(rerr == nil, "NewSpendRequest rejects a Taproot script with an outpoint")
	w.req = req

	for i := 0; i < T; i++ {
		if i == regAt {
			w.register(hint)
		}
		switch ops[i] {
		case c14SOpSpend0:
			w.connect(0)
		case c14SOpSpend1:
			w.connect(1)
		case c14SOpConnect:
			w.connect(-1)
		case c14SOpDisconnect:
			w.disconnect()
		}
	}
	if lazy {
		w.checkLazy()
	}
	w.restart(hint)
}

func VerifC14Spend3()     { c14RunSpend(3, 3, false) }
func VerifC14Spend4()     { c14RunSpend(4, 4, false) }
func VerifC14Spend5()     { c14RunSpend(5, 5, false) }
func VerifC14SpendLazy3() { c14RunSpend(3, 3, true) }
func VerifC14SpendLazy4() { c14RunSpend(4, 4, true) }
