package chainntnfs

// Harness for C14: confirmation notifications follow the active chain through
// reorgs.
//
// Unit: the real TxNotifier (NewTxNotifier, RegisterConf, UpdateConfDetails,
// ConnectTip, filterTx, handleConfDetailsAtTip, NotifyHeight, DisconnectTip,
// dispatchConfDetails, dispatchConfReorg, notifyNumConfsLeft, updateHints,
// unconfirmedRequests) driven by a short script of tip operations. The harness
// plays the chain back-end (it connects/disconnects real btcutil.Block values
// and answers the historical rescan that RegisterConf asks for from its own
// reference chain) and the client (it reads the event channels after every
// operation). The oracle is the reference chain kept by the harness.

import (
	"github.com/btcsuite/btcd/btcutil/v2"
	"github.com/btcsuite/btcd/chainhash/v2"
	"github.com/btcsuite/btcd/wire/v2"
)

// c14Script is a P2SH output script (the bytes of testRawScript in the
// package's own tests).
var c14Script = []byte{
	0xa9, 0x14,
	0x90, 0x1c, 0x86, 0x94, 0xc0, 0x3f, 0xaf, 0xd5,
	0x52, 0x28, 0x10, 0xe0, 0x33, 0x0f, 0x26, 0xe6,
	0x7a, 0x85, 0x33, 0xcd,
	0x87,
}

// c14Hints is the in-memory fake of the persisted height-hint caches
// (ConfirmHintCache + SpendHintCache); same behaviour as mockHintCache of the
// package's tests.
type c14Hints struct {
	conf  map[ConfRequest]uint32
	spend map[SpendRequest]uint32
}

func newC14Hints() *c14Hints {
	return &c14Hints{conf: map[ConfRequest]uint32{}, spend: map[SpendRequest]uint32{}}
}

func (c *c14Hints) CommitSpendHint(h uint32, rs ...SpendRequest) error {
	for _, r := range rs {
		c.spend[r] = h
	}
	return nil
}
func (c *c14Hints) QuerySpendHint(r SpendRequest) (uint32, error) {
	h, ok := c.spend[r]
	if !ok {
		return 0, ErrSpendHintNotFound
	}
	return h, nil
}
func (c *c14Hints) PurgeSpendHint(rs ...SpendRequest) error {
	for _, r := range rs {
		delete(c.spend, r)
	}
	return nil
}
func (c *c14Hints) CommitConfirmHint(h uint32, rs ...ConfRequest) error {
	for _, r := range rs {
		c.conf[r] = h
	}
	return nil
}
func (c *c14Hints) QueryConfirmHint(r ConfRequest) (uint32, error) {
	h, ok := c.conf[r]
	if !ok {
		return 0, ErrConfirmHintNotFound
	}
	return h, nil
}
func (c *c14Hints) PurgeConfirmHint(rs ...ConfRequest) error {
	for _, r := range rs {
		delete(c.conf, r)
	}
	return nil
}

// c14Tx builds a fixed transaction: one input spending outpoint (tag..:1)
// without signature data (so that the spend filter of filterTx skips it) and
// one output paying to script.
func c14Tx(tag byte, script []byte) *wire.MsgTx {
	tx := wire.NewMsgTx(2)
	var prev chainhash.Hash
	prev[0] = tag
	tx.AddTxIn(&wire.TxIn{PreviousOutPoint: wire.OutPoint{Hash: prev, Index: 1}, Sequence: 0xffffffff})
	tx.AddTxOut(&wire.TxOut{Value: 1000 + int64(tag), PkScript: script})
	return tx
}

func c14Block(nonce uint32, txs ...*wire.MsgTx) *btcutil.Block {
	mb := &wire.MsgBlock{Header: wire.BlockHeader{Version: 1, Nonce: nonce}}
	mb.Transactions = append(mb.Transactions, txs...)
	return btcutil.NewBlock(mb)
}

const (
	c14OpConnectTx  = 0 // connect a block that contains the watched transaction
	c14OpConnect    = 1 // connect a block that only contains a decoy
	c14OpDisconnect = 2 // disconnect the tip
)

// c14Client is one registered confirmation client and what the reference
// says it has to believe.
type c14Client struct {
	reg       *ConfRegistration
	numConfs  uint32
	inclBlk   bool // registration asked for the block
	confirmed bool // reference: Confirmed seen and no NegativeConf since
	negSeen   bool // a NegativeConf was delivered earlier
	done      bool
	// finalAtReg: at registration the including block was already at the
	// reorg safety limit; lnd does not track such a request, no Done follows.
	finalAtReg bool
}

// c14World is the notifier under test plus the reference model.
type c14World struct {
	n     *TxNotifier
	hints *c14Hints
	h0    uint32 // height of the notifier at start (symbolic)
	limit uint32 // reorg safety limit (symbolic)
	txA   *wire.MsgTx
	hA    chainhash.Hash
	req   ConfRequest
	lazy  bool // the clients read their channels only at the end of the script

	// reference chain: blocks[i] is the active block at height h0+1+i.
	blocks []*btcutil.Block
	hasTx  []bool
	maxTip int // highest offset the tip ever had
	nonce  uint32
	depth  int32 // successive disconnects since the last connect

	clients []*c14Client
}

func (w *c14World) tipOff() int { return len(w.blocks) }
func (w *c14World) tip() uint32 { return w.h0 + uint32(len(w.blocks)) }

// incl returns the offset (1-based) of the active block that contains the
// watched transaction, 0 if none.
func (w *c14World) incl() int {
	for i, has := range w.hasTx {
		if has {
			return i + 1
		}
	}
	return 0
}

const (
	c14KindRegister = iota // the client's own registration (+ historical rescan answer)
	c14KindOther           // another client's registration
	c14KindConnect
	c14KindDisconnect
)

func (w *c14World) connect(withTx bool) {
	w.nonce++
	decoy := c14Tx(byte(16+w.nonce), c14Script) // same script, other txid
	var blk *btcutil.Block
	if withTx {
		blk = c14Block(w.nonce, decoy, w.txA)
	} else {
		blk = c14Block(w.nonce, decoy)
	}
	h := w.tip() + 1
	err := w.n.ConnectTip(blk, h)
	vAssert(err == nil, "ConnectTip of the next height fails")
	err = w.n.NotifyHeight(h)
	vAssert(err == nil, "NotifyHeight fails")
	w.blocks = append(w.blocks, blk)
	w.hasTx = append(w.hasTx, withTx)
	if len(w.blocks) > w.maxTip {
		w.maxTip = len(w.blocks)
	}
	w.depth = 0
	w.checkAll(c14KindConnect, false, nil)
}

func (w *c14World) disconnect() {
	// "within the reorg safety limit": ConnectTip(h) treats height h-limit as
	// final, so the tip block b may only be disconnected while the chain never
	// reached b+limit.
	vAssume(uint32(w.maxTip-w.tipOff()) < w.limit)
	h := w.tip()
	last := len(w.blocks) - 1
	was := w.hasTx[last]
	err := w.n.DisconnectTip(h)
	vAssert(err == nil, "DisconnectTip of the tip fails")
	w.blocks = w.blocks[:last]
	w.hasTx = w.hasTx[:last]
	w.depth++
	w.checkAll(c14KindDisconnect, was, nil)
}

func (w *c14World) details(off int) *TxConfirmation {
	blk := w.blocks[off-1]
	return &TxConfirmation{
		BlockHash:   blk.Hash(),
		BlockHeight: w.h0 + uint32(off),
		TxIndex:     1,
		Tx:          w.txA,
		Block:       blk.MsgBlock(),
	}
}

// register registers a client and, like the notifier back-ends, answers
// the historical rescan request synchronously from the reference chain.
func (w *c14World) register(numConfs uint32, inclBlk bool, hint uint32) {
	var opts []NotifierOption
	if inclBlk {
		opts = append(opts, WithIncludeBlock())
	}
	reg, err := w.n.RegisterConf(&w.hA, c14Script, numConfs, hint, opts...)
	vAssert(err == nil && reg != nil, "RegisterConf with valid parameters fails")
	c := &c14Client{reg: reg, numConfs: numConfs, inclBlk: inclBlk}
	first := len(w.clients) == 0
	w.clients = append(w.clients, c)
	vAssert(reg.Height == w.tip(), "registration reports a height that is not the tip")
	incl := w.incl()
	if incl != 0 {
		c.finalAtReg = w.h0+uint32(incl)+w.limit <= w.tip()
	}
	if d := reg.HistoricalDispatch; d != nil {
		vReach("historical-rescan")
		vAssert(d.EndHeight == w.tip(), "historical rescan does not end at the tip")
		var det *TxConfirmation
		if incl != 0 {
			ih := w.h0 + uint32(incl)
			vAssert(d.StartHeight <= ih, "historical rescan starts above the block that includes the transaction")
			det = w.details(incl)
		}
		err = w.n.UpdateConfDetails(d.ConfRequest, det)
		vAssert(err == nil, "UpdateConfDetails fails")
	} else if first {
		// (a later client may rely on the rescan done for an earlier one)
		vAssert(incl == 0, "no historical rescan although the transaction is already in the chain")
	}
	w.checkAll(c14KindRegister, false, c)
}

func (w *c14World) checkAll(kind int, disconnectedIncl bool, who *c14Client) {
	for _, c := range w.clients {
		k := kind
		if kind == c14KindRegister && c != who {
			k = c14KindOther
		}
		w.check(c, k, disconnectedIncl)
	}
	w.checkHint(kind)
}

// check advances the reference for client c over the last operation and (for
// a client that reads promptly) reads everything the notifier delivered to it
// during that operation and compares.
func (w *c14World) check(c *c14Client, kind int, disconnectedIncl bool) {
	n := int(c.numConfs)
	incl := w.incl()
	confs := 0
	if incl != 0 {
		confs = w.tipOff() - incl + 1
	}

	// reference: what the client has to believe after this operation.
	before := c.confirmed
	if disconnectedIncl {
		c.confirmed = false
	}
	if confs >= n {
		c.confirmed = true
	}
	if w.lazy {
		return
	}
	wantConf := 0
	if c.confirmed && !before {
		wantConf = 1
	}

	// Confirmed
	nConf := w.readConfirmed(c)
	vAssert(nConf == wantConf, "number of Confirmed events differs from the reference chain (missing, duplicated or premature confirmation)")
	if nConf == 1 {
		vReach("confirmed")
		if kind == c14KindRegister {
			vReach("confirmed-at-registration")
		}
		if c.negSeen {
			vReach("confirmed-again-after-reorg")
		}
	}

	// NegativeConf
	nNeg := w.readNegative(c, disconnectedIncl)
	if nNeg > 0 {
		c.negSeen = true
	}
	if disconnectedIncl && before {
		vReach("reorg-after-confirmed")
		vAssert(nNeg == 1, "including block disconnected after Confirmed but no (single) NegativeConf delivered")
	} else {
		if nNeg == 1 {
			vReach("reorg-before-confirmed")
		}
		vAssert(nNeg <= 1, "more than one NegativeConf for one disconnected block")
	}

	// Updates
	ev := c.reg.Event
	inclH := w.h0 + uint32(incl)
	nUpd := 0
	for more := true; more; {
		select {
		case u := <-ev.Updates:
			nUpd++
			vAssert(incl != 0 && kind != c14KindDisconnect, "Updates delivered although the transaction is not in the active chain or a block was disconnected")
			left := 0
			if confs < n {
				left = n - confs
			}
			vAssert(u.BlockHeight == inclH, "Updates carries a block height that is not the including block")
			vAssert(u.NumConfsLeft == uint32(left), "Updates carries a wrong number of confirmations left")
		default:
			more = false
		}
	}
	wantUpd := 0
	if incl != 0 && ((kind == c14KindConnect && confs <= n && !c.done) || kind == c14KindRegister) {
		wantUpd = 1
	}
	if kind == c14KindOther {
		// RegisterConf of another client re-dispatches to the whole set; a
		// client whose counter was reset by a disconnect may be told the
		// (correct, checked above) remaining count once more.
		vAssert(nUpd <= 1, "more than one Updates event during another client's registration")
	} else {
		// a request that lnd no longer tracks (Done sent, or the including
		// block was already at the safety limit at registration) gets no
		// further updates when a shallow reorg lets the count pass by again.
		vAssert(nUpd == wantUpd || (kind == c14KindConnect && c.finalAtReg && nUpd == 0), "number of Updates events differs from the reference chain")
	}
	if nUpd == 1 && confs < n {
		vReach("update-pending")
	}

	// Done
	nDone := w.readDone(c)
	mature := incl != 0 && kind == c14KindConnect && w.tip() == inclH+w.limit
	if nDone != 0 {
		vReach("done")
		vAssert(nDone == 1 && mature && !c.done, "Done delivered although the including block is not exactly at the reorg safety limit")
		c.done = true
	} else {
		vAssert(c.done || c.finalAtReg || !mature, "including block reached the reorg safety limit but Done was not delivered")
	}
}

func (w *c14World) readConfirmed(c *c14Client) int {
	n := int(c.numConfs)
	incl := w.incl()
	inclH := w.h0 + uint32(incl)
	confs := 0
	if incl != 0 {
		confs = w.tipOff() - incl + 1
	}
	nConf := 0
	for more := true; more; {
		select {
		case d := <-c.reg.Event.Confirmed:
			nConf++
			vAssert(d != nil, "nil confirmation details")
			if w.lazy {
				vAssert(incl != 0, "a Confirmed event is pending although the transaction is not in the active chain")
			} else {
				vAssert(incl != 0 && confs >= n, "Confirmed delivered although the transaction does not have numConfs confirmations on the active chain")
			}
			if incl != 0 && d != nil {
				blk := w.blocks[incl-1]
				vAssert(d.BlockHeight == inclH, "Confirmed carries a block height that is not the including block of the active chain")
				vAssert(d.BlockHash != nil && *d.BlockHash == *blk.Hash(), "Confirmed carries a block hash that is not the including block of the active chain")
				vAssert(d.Tx == w.txA, "Confirmed carries another transaction")
				vAssert(d.TxIndex == 1, "Confirmed carries a wrong transaction index")
				if c.inclBlk {
					vAssert(d.Block == blk.MsgBlock(), "Confirmed does not carry the including block although it was requested")
				} else {
					vAssert(d.Block == nil, "Confirmed carries a block although none was requested")
				}
			}
		default:
			more = false
		}
	}
	return nConf
}

func (w *c14World) readNegative(c *c14Client, disconnectedIncl bool) int {
	nNeg := 0
	for more := true; more; {
		select {
		case depth := <-c.reg.Event.NegativeConf:
			nNeg++
			if w.lazy {
				vAssert(w.incl() == 0, "a NegativeConf is pending although the transaction is in the active chain")
			} else {
				vAssert(disconnectedIncl, "NegativeConf delivered although the including block was not disconnected")
				vAssert(depth == w.depth, "NegativeConf carries a depth that is not the number of successively disconnected blocks")
			}
		default:
			more = false
		}
	}
	return nNeg
}

func (w *c14World) readDone(c *c14Client) int {
	nDone := 0
	for more := true; more; {
		select {
		case <-c.reg.Event.Done:
			nDone++
		default:
			more = false
		}
	}
	return nDone
}

// checkLazy: a client that did not read anything during the script reads its
// channels now; what is pending must describe the active chain.
func (w *c14World) checkLazy(c *c14Client) {
	nConf := w.readConfirmed(c)
	want := 0
	if c.confirmed {
		want = 1
	}
	vAssert(nConf == want, "late reader: pending Confirmed events do not match the active chain")
	if nConf == 1 {
		vReach("lazy-confirmed")
	}
	nNeg := w.readNegative(c, false)
	vAssert(nNeg <= 1 && (nNeg == 0 || nConf == 0), "late reader: NegativeConf pending together with Confirmed")
	if nNeg == 1 {
		vReach("lazy-negative")
	}
	nDone := w.readDone(c)
	incl := w.incl()
	vAssert(nDone <= 1 && (nDone == 0 || (incl != 0 && w.h0+uint32(w.maxTip) >= w.h0+uint32(incl)+w.limit)),
		"late reader: Done pending although the including block never reached the reorg safety limit")
	if nDone == 1 {
		vReach("lazy-done")
	}
}

// checkHint: the persisted confirm hint after every operation.
func (w *c14World) checkHint(kind int) {
	incl := w.incl()
	hint, herr := w.hints.QueryConfirmHint(w.req)
	if herr != nil {
		return
	}
	if incl != 0 {
		inclH := w.h0 + uint32(incl)
		vAssert(hint <= inclH, "persisted confirm hint exceeds the height at which the transaction is included in the active chain")
		if hint == inclH {
			vReach("hint-at-inclusion")
		}
	} else {
		// the next block (tip+1) is the earliest one that can include it
		vAssert(hint <= w.tip()+1, "persisted confirm hint exceeds the next block height while the transaction is unconfirmed")
		if kind == c14KindDisconnect {
			vReach("hint-lowered-by-reorg")
		}
	}
}

// restart models a restart at the current tip: a fresh TxNotifier over the
// persisted hint cache, the client registers again with its original hint. A
// rescan from the resulting start height must not miss the transaction.
func (w *c14World) restart(numConfs uint32, hint uint32) {
	n2 := NewTxNotifier(w.tip(), w.limit, w.hints, w.hints)
	reg, err := n2.RegisterConf(&w.hA, c14Script, numConfs, hint)
	vAssert(err == nil && reg != nil, "RegisterConf after restart fails")
	incl := w.incl()
	if incl != 0 {
		vReach("restart-included")
		d := reg.HistoricalDispatch
		vAssert(d != nil, "after restart: no historical rescan although the transaction is in the chain")
		if d != nil {
			ih := w.h0 + uint32(incl)
			vAssert(d.StartHeight <= ih && ih <= d.EndHeight, "after restart: rescan range from the persisted hint misses the including block")
		}
	}
}

func c14Common() {
	vUnwind(300) // chaincfg's package initialiser decodes long hex strings
	vInjective("sha256")
	vAssumption("sha256 (txid and block hash) is collision-free on the fixed transactions/headers of the harness; the txid of the watched transaction is not the all-zero hash")
	vAssumption("the chain back-end is the harness: blocks are connected/disconnected in order, NotifyHeight follows every ConnectTip, a requested historical rescan is answered synchronously and correctly from the active chain before the next block event")
}

// c14Heights draws the symbolic start height, reorg safety limit and client
// height hint.
func c14Heights(minLimit int) (h0, limit, hint uint32) {
	h0 = vU32("h0")
	limit = vU32("limit")
	hint = vU32("hint")
	// heights: wire width is uint32; lnd uses int32 for heights elsewhere
	// (SpendDetail.SpendingHeight, BlockEpoch.Height), so < 2^31. The start
	// height is above the safety limit (true on every real network).
	vAssume(h0 >= 200 && h0 < 1<<31-16)
	// newConfNtfn demands 1 <= numConfs <= limit; MaxNumConfs = ReorgSafetyLimit = 144.
	vAssume(limit >= uint32(minLimit) && limit <= 144)
	// RegisterConf/RegisterSpend demand a non-zero hint. The client's hint is a
	// lower bound for the inclusion height ("the minimum height in the chain
	// that we expect to find this txid"): at most the first block of the
	// modelled history.
	vAssume(hint >= 1 && hint <= h0+1)
	return
}

// c14Run executes one script of T operations. regs = positions at which a
// client may register (the first regs operations); two = a second client
// registers later with another confirmation target.
func c14Run(T int, maxConfs int, regs int, lazy bool, two bool) {
	c14Common()

	// the script (concrete per path)
	var ops [8]int
	for i := 0; i < T; i++ {
		ops[i] = vChoice("op", 3)
	}
	regAt := vChoice("reg", regs)
	numConfs := vChoice("numConfs", maxConfs) + 1
	reg2At := -1
	numConfs2 := numConfs%maxConfs + 1
	if two {
		reg2At = vChoice("reg2", T)
		vAssume(reg2At >= regAt)
	}

	// prune scripts that are not chains: the transaction is in at most one
	// active block, no disconnect below the start height.
	{
		depth := 0
		var has [9]bool
		for i := 0; i < T; i++ {
			switch ops[i] {
			case c14OpConnectTx:
				for j := 0; j < depth; j++ {
					vAssume(!has[j])
				}
				has[depth] = true
				depth++
			case c14OpConnect:
				has[depth] = false
				depth++
			case c14OpDisconnect:
				vAssume(depth > 0)
				depth--
			}
		}
	}

	minLimit := numConfs
	if two && numConfs2 > minLimit {
		minLimit = numConfs2
	}
	h0, limit, hint := c14Heights(minLimit)

	hints := newC14Hints()
	w := &c14World{
		n:     NewTxNotifier(h0, limit, hints, hints),
		hints: hints,
		h0:    h0,
		limit: limit,
		txA:   c14Tx(1, c14Script),
		lazy:  lazy,
	}
	w.hA = w.txA.TxHash()
	vAssume(w.hA != chainhash.Hash{})
	req, rerr := NewConfRequest(&w.hA, c14Script)
	vAssert(rerr == nil, "NewConfRequest rejects a P2SH script")
	w.req = req

	for i := 0; i < T; i++ {
		if i == regAt {
			w.register(uint32(numConfs), numConfs == 2, hint)
		}
		if i == reg2At {
			w.register(uint32(numConfs2), numConfs2 == 2, hint)
		}
		switch ops[i] {
		case c14OpConnectTx:
			w.connect(true)
		case c14OpConnect:
			w.connect(false)
		case c14OpDisconnect:
			w.disconnect()
		}
	}
	if lazy {
		for _, c := range w.clients {
			w.checkLazy(c)
		}
	}
	w.restart(uint32(numConfs), hint)
}

func VerifC14Conf3() { c14Run(3, 3, 3, false, false) }
func VerifC14Conf4() { c14Run(4, 3, 4, false, false) }
func VerifC14Conf5() { c14Run(5, 3, 5, false, false) }
func VerifC14Conf6() { c14Run(6, 3, 6, false, false) }
func VerifC14Lazy3() { c14Run(3, 2, 3, true, false) } // numConfs <= 2
func VerifC14Lazy4() { c14Run(4, 3, 4, true, false) }
func VerifC14Two3()  { c14Run(3, 3, 3, false, true) }
func VerifC14Two4()  { c14Run(4, 3, 2, false, true) } // first client registers before the first or second operation
