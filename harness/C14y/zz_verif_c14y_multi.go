package chainntnfs

// Harness C14y (extension of C14): several clients on ONE spend request / ONE
// confirmation request and the per-request state they share inside the real
// TxNotifier (spendNtfnSet/confNtfnSet: rescanStatus, details) while a
// historical rescan is PENDING.
//
// Differences to the C14 entries (zz_verif_c14*.go, copied unchanged, only
// their helpers are used here): the rescan that RegisterSpend/RegisterConf
// hands out is NOT answered at once. Its completion (UpdateSpendDetails /
// UpdateConfDetails with the answer read from the active chain at that moment)
// is an operation of its own that the script may place after a block with the
// spend/transaction arrived at tip and after the second client registered.
//
// Script: optional block with the spender/transaction before anybody
// registers (vChoice pre), client A registers (symbolic hint: with or without
// historical dispatch), then 3 steps chosen by vChoice from: connect a block
// with spender S0 / with the conflicting spender S1 / without, disconnect the
// tip, client B registers, the pending rescan completes. B registers in every
// script. A rescan still pending after the last step completes then.
//
// Oracle (both clients, after every step, channels read promptly):
//   - a Spend/Confirmed that is delivered describes the active chain (right
//     spender / block, enough confirmations) and is not a duplicate (none
//     since the last Reorg/NegativeConf);
//   - a Reorg is delivered only to a client that was told and only in the step
//     that disconnects the spending block, and then it IS delivered (conf
//     side: NegativeConf only when the including block is disconnected, and
//     one for every client that was told);
//   - whenever no rescan is outstanding: a client has been told iff the
//     outpoint is spent on the active chain (conf side: told if the
//     transaction has numConfs confirmations, not told if it is not in the
//     chain) -- irrespective of whether it registered before or after the
//     spend was seen and of whether another client's rescan was pending then;
//   - persisted hint <= spending/including height, else <= tip+1.

import (
	"github.com/btcsuite/btcd/btcutil/v2"
	"github.com/btcsuite/btcd/chainhash/v2"
	"github.com/btcsuite/btcd/wire/v2"
)

const (
	c14yOpSpend0     = 0
	c14yOpSpend1     = 1
	c14yOpConnect    = 2
	c14yOpDisconnect = 3
	c14yOpRegB       = 4
	c14yOpComplete   = 5
	c14yNumOps       = 6
)

type c14ySpendClient struct {
	reg  *SpendRegistration
	told bool // last thing the client heard: Spend (no Reorg since)
}

type c14ySpendWorld struct {
	n     *TxNotifier
	hints *c14Hints
	h0    uint32
	limit uint32
	op    wire.OutPoint
	sp    [2]*wire.MsgTx
	spH   [2]chainhash.Hash
	req   SpendRequest

	blocks []*btcutil.Block
	who    []int
	maxTip int
	nonce  uint32

	cl   []*c14ySpendClient
	pend []*HistoricalSpendDispatch // rescans handed out and not yet answered

	// stale: also explore scripts in which a rescan is still outstanding when
	// the spending block reaches the reorg safety limit (lnd then forgets the
	// request). The main entries exclude them, see c14yRescanInTime.
	stale bool
	done  bool // a Done was delivered: lnd no longer tracks the request
}

// c14yRescanInTime is the domain restriction of the main entries: a historical
// rescan completes before the block with the spender/transaction (1-based
// offset incl, 0 = none) is reorgSafetyLimit deep, i.e. before ConnectTip of
// offset newTip forgets the request (production limit: 144 blocks).
func c14yRescanInTime(pending bool, incl int, newTip int, limit uint32) {
	if pending && incl != 0 {
		vAssume(uint32(newTip-incl) < limit)
	}
}

func (w *c14ySpendWorld) tipOff() int { return len(w.blocks) }
func (w *c14ySpendWorld) tip() uint32 { return w.h0 + uint32(len(w.blocks)) }

func (w *c14ySpendWorld) incl() int {
	for i, s := range w.who {
		if s >= 0 {
			return i + 1
		}
	}
	return 0
}

func (w *c14ySpendWorld) connect(s int) {
	w.nonce++
	decoy := c14Tx(byte(16+w.nonce), c14Script)
	var blk *btcutil.Block
	if s >= 0 {
		blk = c14Block(w.nonce, decoy, w.sp[s])
	} else {
		blk = c14Block(w.nonce, decoy)
	}
	if !w.stale {
		incl := w.incl()
		if s >= 0 {
			incl = w.tipOff() + 1
		}
		c14yRescanInTime(len(w.pend) > 0, incl, w.tipOff()+1, w.limit)
	}
	h := w.tip() + 1
	err := w.n.ConnectTip(blk, h)
	vAssert(err == nil, "ConnectTip of the next height fails")
	err = w.n.NotifyHeight(h)
	vAssert(err == nil, "NotifyHeight fails")
	w.blocks = append(w.blocks, blk)
	w.who = append(w.who, s)
	if len(w.blocks) > w.maxTip {
		w.maxTip = len(w.blocks)
	}
	if s >= 0 && len(w.pend) > 0 && len(w.cl) > 0 {
		vReach("multi-spend-at-tip-while-rescan-pending")
	}
	w.check(false)
}

func (w *c14ySpendWorld) disconnect() {
	vAssume(uint32(w.maxTip-w.tipOff()) < w.limit) // within the reorg safety limit, see c14World.disconnect
	h := w.tip()
	last := len(w.blocks) - 1
	was := w.who[last] >= 0
	err := w.n.DisconnectTip(h)
	vAssert(err == nil, "DisconnectTip of the tip fails")
	w.blocks = w.blocks[:last]
	w.who = w.who[:last]
	w.check(was)
}

func (w *c14ySpendWorld) details(off int) *SpendDetail {
	s := w.who[off-1]
	op := w.op
	return &SpendDetail{
		SpentOutPoint:     &op,
		SpenderTxHash:     &w.spH[s],
		SpendingTx:        w.sp[s],
		SpenderInputIndex: 1,
		SpendingHeight:    int32(w.h0 + uint32(off)),
	}
}

// register registers one more client for the same outpoint. A historical
// dispatch is only recorded; complete() answers it later.
func (w *c14ySpendWorld) register(hint uint32) {
	op := w.op
	reg, err := w.n.RegisterSpend(&op, c14Taproot, hint)
	vAssert(err == nil && reg != nil, "RegisterSpend with valid parameters fails")
	vAssert(reg.Height == w.tip(), "registration reports a height that is not the tip")
	second := len(w.cl) > 0
	w.cl = append(w.cl, &c14ySpendClient{reg: reg})
	if second && len(w.pend) > 0 {
		vReach("multi-second-client-while-rescan-pending")
	}
	if d := reg.HistoricalDispatch; d != nil {
		vReach("multi-historical-rescan-requested")
		vAssert(d.EndHeight == w.tip(), "historical rescan does not end at the tip")
		w.pend = append(w.pend, d)
	} else if !second {
		vReach("multi-no-historical-rescan")
	}
	w.check(false)
	if second && w.cl[1].told && reg.HistoricalDispatch == nil {
		vReach("multi-second-client-told-at-registration")
	}
}

// complete: the oldest outstanding rescan finishes. The back-end reports what
// the active chain contains now in [StartHeight, EndHeight].
func (w *c14ySpendWorld) complete() {
	d := w.pend[0]
	w.pend = w.pend[1:]
	var det *SpendDetail
	incl := w.incl()
	if incl != 0 && w.h0+uint32(incl) <= d.EndHeight {
		vAssert(d.StartHeight <= w.h0+uint32(incl), "historical rescan starts above the block that spends the outpoint")
		det = w.details(incl)
		vReach("multi-rescan-finds-spend")
	} else {
		vReach("multi-rescan-finds-nothing")
	}
	err := w.n.UpdateSpendDetails(d.SpendRequest, det)
	if w.done {
		// the request the rescan was made for is gone; an error is harmless
		vReach("multi-rescan-outlives-request")
	} else {
		vAssert(err == nil, "UpdateSpendDetails fails")
	}
	w.check(false)
}

func (w *c14ySpendWorld) readSpend(c *c14ySpendClient) int {
	incl := w.incl()
	nSp := 0
	for more := true; more; {
		select {
		case d := <-c.reg.Event.Spend:
			nSp++
			vAssert(d != nil, "nil spend details")
			vAssert(incl != 0, "Spend delivered although the outpoint is unspent on the active chain")
			if incl != 0 && d != nil {
				s := w.who[incl-1]
				vAssert(d.SpendingHeight == int32(w.h0+uint32(incl)), "Spend carries a height that is not the spending block of the active chain")
				vAssert(d.SpendingTx == w.sp[s], "Spend carries a transaction that is not the spender on the active chain")
				vAssert(d.SpenderTxHash != nil && *d.SpenderTxHash == w.spH[s], "Spend carries a spender hash that is not the spender on the active chain")
				vAssert(d.SpentOutPoint != nil && *d.SpentOutPoint == w.op, "Spend carries another outpoint")
				vAssert(d.SpenderInputIndex == 1, "Spend carries a wrong input index")
				if s == 1 {
					vReach("multi-spent-by-conflicting-tx")
				}
			}
		default:
			more = false
		}
	}
	return nSp
}

func (w *c14ySpendWorld) check(disconnectedIncl bool) {
	incl := w.incl()
	nReAll := 0
	for _, c := range w.cl {
		before := c.told
		nSp := w.readSpend(c)
		vAssert(nSp <= 1, "more than one Spend event in one step")
		if nSp == 1 {
			vAssert(!before, "client is told of the spend a second time (no Reorg in between)")
			c.told = true
		}
		nRe := 0
		for more := true; more; {
			select {
			case <-c.reg.Event.Reorg:
				nRe++
			default:
				more = false
			}
		}
		if nRe > 0 {
			vAssert(nRe == 1 && nSp == 0, "Reorg delivered twice or together with a Spend")
			vAssert(disconnectedIncl, "Reorg delivered although the spending block was not disconnected")
			vAssert(before, "Reorg delivered to a client that was not told of the spend")
			c.told = false
			nReAll++
		}
		if disconnectedIncl && before {
			vAssert(nRe == 1, "spending block disconnected but a client that was told of the spend gets no Reorg")
		}
		for more := true; more; { // Done is not part of this check (see C14)
			select {
			case <-c.reg.Event.Done:
				w.done = true
			default:
				more = false
			}
		}
		if len(w.pend) == 0 {
			if incl != 0 {
				vAssert(c.told, "no rescan outstanding, outpoint spent on the active chain, but a registered client was not told (missed spend)")
			} else {
				vAssert(!c.told, "no rescan outstanding, outpoint unspent on the active chain, but a client believes it is spent")
			}
		}
	}
	if nReAll == 2 {
		vReach("multi-reorg-both-clients")
	}
	if len(w.cl) == 2 && w.cl[0].told && w.cl[1].told {
		vReach("multi-both-clients-told")
	}

	hint, herr := w.hints.QuerySpendHint(w.req)
	if herr == nil {
		if incl != 0 {
			vAssert(hint <= w.h0+uint32(incl), "persisted spend hint exceeds the height at which the outpoint is spent on the active chain")
		} else {
			vAssert(hint <= w.tip()+1, "persisted spend hint exceeds the next block height while the outpoint is unspent")
		}
	}
}

// c14yScript draws the steps and prunes scripts that are not chains (at most
// one spender/transaction in the active chain, no disconnect below the start
// height), that do not register B exactly once or that complete a rescan
// twice. incOps = number of "connect with the watched thing" operations (they
// are numbered 0..incOps-1; then plain connect, disconnect, regB, complete).
func c14yScript(T int, incOps int, pre int) (ops [4]int) {
	opConnect, opDisconnect, opRegB, opComplete := incOps, incOps+1, incOps+2, incOps+3
	for i := 0; i < T; i++ {
		ops[i] = vChoice("op", incOps+4)
	}
	depth := 0
	var has [6]bool
	if pre == 1 {
		has[0] = true
		depth = 1
	}
	nB, nC := 0, 0
	for i := 0; i < T; i++ {
		switch {
		case ops[i] < incOps:
			for j := 0; j < depth; j++ {
				vAssume(!has[j])
			}
			has[depth] = true
			depth++
		case ops[i] == opConnect:
			has[depth] = false
			depth++
		case ops[i] == opDisconnect:
			vAssume(depth > 0)
			depth--
		case ops[i] == opRegB:
			nB++
		case ops[i] == opComplete:
			nC++
		}
	}
	vAssume(nB == 1 && nC <= 1)
	return
}

func c14yRunSpend(T int, stale bool) {
	c14Common()
	pre := vChoice("pre", 2)
	ops := c14yScript(T, 2, pre)
	h0, limit, hintA := c14Heights(1)
	hintB := vU32("hintB")
	vAssume(hintB >= 1 && hintB <= h0+1) // as c14Heights: a lower bound of every spending height

	hints := newC14Hints()
	w := &c14ySpendWorld{
		n:     NewTxNotifier(h0, limit, hints, hints),
		hints: hints,
		h0:    h0,
		limit: limit,
		stale: stale,
	}
	w.op.Hash[0] = 0x55
	w.op.Index = 3
	for s := 0; s < 2; s++ {
		w.sp[s] = c14Spender(byte(s), w.op)
		w.spH[s] = w.sp[s].TxHash()
	}
	op := w.op
	req, rerr := NewSpendRequest(&op, c14Taproot)
	vAssert(rerr == nil, "NewSpendRequest rejects a Taproot script with an outpoint")
	w.req = req

	if pre == 1 {
		w.connect(0)
	}
	w.register(hintA)
	for i := 0; i < T; i++ {
		switch ops[i] {
		case c14yOpSpend0:
			w.connect(0)
		case c14yOpSpend1:
			w.connect(1)
		case c14yOpConnect:
			w.connect(-1)
		case c14yOpDisconnect:
			w.disconnect()
		case c14yOpRegB:
			w.register(hintB)
		case c14yOpComplete:
			vAssume(len(w.pend) > 0)
			w.complete()
		}
	}
	// "eventually": every rescan still outstanding completes now; check()
	// then demands that every client knows the state of the active chain.
	for len(w.pend) > 0 {
		w.complete()
	}
	if w.incl() != 0 {
		vReach("multi-final-spent")
	} else {
		vReach("multi-final-unspent")
	}
}

func VerifC14yMultiSpend3() { c14yRunSpend(3, false) }

// VerifC14yStaleRescan3: the same without the domain restriction
// c14yRescanInTime (thorough tier only; reports the CANDIDATE FINDING of
// NOTES.md on the unchanged tree).
func VerifC14yStaleRescan3() { c14yRunSpend(3, true) }

// ---------------------------------------------------------------------------
// confirmation side: two ntfn ids with different numConfs on one txid/script.

type c14yConfClient struct {
	reg      *ConfRegistration
	numConfs uint32
	inclBlk  bool
	told     bool // last thing heard: Confirmed (no NegativeConf since)
}

type c14yConfWorld struct {
	n     *TxNotifier
	hints *c14Hints
	h0    uint32
	limit uint32
	txA   *wire.MsgTx
	hA    chainhash.Hash
	req   ConfRequest

	blocks []*btcutil.Block
	hasTx  []bool
	maxTip int
	nonce  uint32
	depth  int32

	cl   []*c14yConfClient
	pend []*HistoricalConfDispatch
}

func (w *c14yConfWorld) tipOff() int { return len(w.blocks) }
func (w *c14yConfWorld) tip() uint32 { return w.h0 + uint32(len(w.blocks)) }

func (w *c14yConfWorld) incl() int {
	for i, has := range w.hasTx {
		if has {
			return i + 1
		}
	}
	return 0
}

func (w *c14yConfWorld) connect(withTx bool) {
	w.nonce++
	decoy := c14Tx(byte(16+w.nonce), c14Script)
	var blk *btcutil.Block
	if withTx {
		blk = c14Block(w.nonce, decoy, w.txA)
	} else {
		blk = c14Block(w.nonce, decoy)
	}
	{
		incl := w.incl()
		if withTx {
			incl = w.tipOff() + 1
		}
		c14yRescanInTime(len(w.pend) > 0, incl, w.tipOff()+1, w.limit)
	}
	h := w.tip() + 1
	err := w.n.ConnectTip(blk, h)
	vAssert(err == nil, "ConnectTip of the next height fails")
	err = w.n.NotifyHeight(h)
	vAssert(err == nil, "NotifyHeight fails")
	w.blocks = append(w.blocks, blk)
	w.hasTx = append(w.hasTx, withTx)
	if len(w.blocks) > w.maxTip {
		w.maxTip = len(w.blocks)
	}
	w.depth = 0
	if withTx && len(w.pend) > 0 && len(w.cl) > 0 {
		vReach("multi-tx-at-tip-while-rescan-pending")
	}
	w.check(false)
}

func (w *c14yConfWorld) disconnect() {
	vAssume(uint32(w.maxTip-w.tipOff()) < w.limit)
	h := w.tip()
	last := len(w.blocks) - 1
	was := w.hasTx[last]
	err := w.n.DisconnectTip(h)
	vAssert(err == nil, "DisconnectTip of the tip fails")
	w.blocks = w.blocks[:last]
	w.hasTx = w.hasTx[:last]
	w.depth++
	w.check(was)
}

func (w *c14yConfWorld) register(numConfs uint32, hint uint32) {
	inclBlk := numConfs == 2
	var opts []NotifierOption
	if inclBlk {
		opts = append(opts, WithIncludeBlock())
	}
	reg, err := w.n.RegisterConf(&w.hA, c14Script, numConfs, hint, opts...)
	vAssert(err == nil && reg != nil, "RegisterConf with valid parameters fails")
	vAssert(reg.Height == w.tip(), "registration reports a height that is not the tip")
	second := len(w.cl) > 0
	w.cl = append(w.cl, &c14yConfClient{reg: reg, numConfs: numConfs, inclBlk: inclBlk})
	if second && len(w.pend) > 0 {
		vReach("multi-second-conf-client-while-rescan-pending")
	}
	if d := reg.HistoricalDispatch; d != nil {
		vReach("multi-conf-rescan-requested")
		vAssert(d.EndHeight == w.tip(), "historical rescan does not end at the tip")
		w.pend = append(w.pend, d)
	}
	w.check(false)
	if second && w.cl[1].told && reg.HistoricalDispatch == nil {
		vReach("multi-second-conf-client-told-at-registration")
	}
}

func (w *c14yConfWorld) complete() {
	d := w.pend[0]
	w.pend = w.pend[1:]
	var det *TxConfirmation
	incl := w.incl()
	if incl != 0 && w.h0+uint32(incl) <= d.EndHeight {
		vAssert(d.StartHeight <= w.h0+uint32(incl), "historical rescan starts above the block that includes the transaction")
		blk := w.blocks[incl-1]
		det = &TxConfirmation{
			BlockHash:   blk.Hash(),
			BlockHeight: w.h0 + uint32(incl),
			TxIndex:     1,
			Tx:          w.txA,
			Block:       blk.MsgBlock(),
		}
		vReach("multi-conf-rescan-finds-tx")
	} else {
		vReach("multi-conf-rescan-finds-nothing")
	}
	err := w.n.UpdateConfDetails(d.ConfRequest, det)
	vAssert(err == nil, "UpdateConfDetails fails")
	w.check(false)
}

func (w *c14yConfWorld) check(disconnectedIncl bool) {
	incl := w.incl()
	inclH := w.h0 + uint32(incl)
	confs := 0
	if incl != 0 {
		confs = w.tipOff() - incl + 1
	}
	nNegTold := 0
	for _, c := range w.cl {
		n := int(c.numConfs)
		before := c.told
		nConf := 0
		for more := true; more; {
			select {
			case d := <-c.reg.Event.Confirmed:
				nConf++
				vAssert(d != nil, "nil confirmation details")
				vAssert(incl != 0 && confs >= n, "Confirmed delivered although the transaction does not have numConfs confirmations on the active chain")
				if incl != 0 && d != nil {
					blk := w.blocks[incl-1]
					vAssert(d.BlockHeight == inclH, "Confirmed carries a block height that is not the including block of the active chain")
					vAssert(d.BlockHash != nil && *d.BlockHash == *blk.Hash(), "Confirmed carries a block hash that is not the including block of the active chain")
					vAssert(d.Tx == w.txA, "Confirmed carries another transaction")
					vAssert(d.TxIndex == 1, "Confirmed carries a wrong transaction index")
					if c.inclBlk {
						vAssert(d.Block == blk.MsgBlock(), "Confirmed does not carry the including block although it was requested")
					} else {
						vAssert(d.Block == nil, "Confirmed carries a block although none was requested")
					}
				}
			default:
				more = false
			}
		}
		vAssert(nConf <= 1, "more than one Confirmed event in one step")
		if nConf == 1 {
			vAssert(!before, "client is told of the confirmation a second time (no NegativeConf in between)")
			c.told = true
		}
		nNeg := 0
		for more := true; more; {
			select {
			case depth := <-c.reg.Event.NegativeConf:
				nNeg++
				vAssert(disconnectedIncl, "NegativeConf delivered although the including block was not disconnected")
				vAssert(depth == w.depth, "NegativeConf carries a depth that is not the number of successively disconnected blocks")
			default:
				more = false
			}
		}
		vAssert(nNeg <= 1 && (nNeg == 0 || nConf == 0), "NegativeConf delivered twice or together with Confirmed")
		if disconnectedIncl && before {
			vAssert(nNeg == 1, "including block disconnected after Confirmed but no NegativeConf delivered")
			nNegTold++
		}
		if nNeg == 1 {
			c.told = false
		}
		// Updates: values must be right, the number is C14's business.
		for more := true; more; {
			select {
			case u := <-c.reg.Event.Updates:
				vAssert(incl != 0, "Updates delivered although the transaction is not in the active chain")
				left := 0
				if confs < n {
					left = n - confs
				}
				vAssert(u.BlockHeight == inclH, "Updates carries a block height that is not the including block")
				vAssert(u.NumConfsLeft == uint32(left), "Updates carries a wrong number of confirmations left")
			default:
				more = false
			}
		}
		for more := true; more; {
			select {
			case <-c.reg.Event.Done:
			default:
				more = false
			}
		}
		if len(w.pend) == 0 {
			if incl != 0 && confs >= n {
				vAssert(c.told, "no rescan outstanding, transaction has numConfs confirmations on the active chain, but a registered client was not told (missed confirmation)")
			}
			if incl == 0 {
				vAssert(!c.told, "no rescan outstanding, transaction not in the active chain, but a client believes it is confirmed")
			}
		}
	}
	if nNegTold == 2 {
		vReach("multi-negative-both-clients")
	}
	if len(w.cl) == 2 && w.cl[0].told && w.cl[1].told {
		vReach("multi-both-clients-confirmed")
	}
	if len(w.cl) == 2 && w.cl[0].told != w.cl[1].told && len(w.pend) == 0 {
		vReach("multi-one-client-confirmed-one-waiting")
	}

	hint, herr := w.hints.QueryConfirmHint(w.req)
	if herr == nil {
		if incl != 0 {
			vAssert(hint <= inclH, "persisted confirm hint exceeds the height at which the transaction is included in the active chain")
		} else {
			vAssert(hint <= w.tip()+1, "persisted confirm hint exceeds the next block height while the transaction is unconfirmed")
		}
	}
}

func c14yRunConf(T int) {
	c14Common()
	pre := vChoice("pre", 2)
	nA := vChoice("numConfs", 2) + 1 // A: 1 or 2, B: the other
	nB := 3 - nA
	ops := c14yScript(T, 1, pre)
	h0, limit, hintA := c14Heights(2)
	hintB := vU32("hintB")
	vAssume(hintB >= 1 && hintB <= h0+1)

	hints := newC14Hints()
	w := &c14yConfWorld{
		n:     NewTxNotifier(h0, limit, hints, hints),
		hints: hints,
		h0:    h0,
		limit: limit,
		txA:   c14Tx(1, c14Script),
	}
	w.hA = w.txA.TxHash()
	vAssume(w.hA != chainhash.Hash{})
	req, rerr := NewConfRequest(&w.hA, c14Script)
	vAssert(rerr == nil, "NewConfRequest rejects a P2SH script")
	w.req = req

	if pre == 1 {
		w.connect(true)
	}
	w.register(uint32(nA), hintA)
	for i := 0; i < T; i++ {
		switch ops[i] {
		case 0:
			w.connect(true)
		case 1:
			w.connect(false)
		case 2:
			w.disconnect()
		case 3:
			w.register(uint32(nB), hintB)
		case 4:
			vAssume(len(w.pend) > 0)
			w.complete()
		}
	}
	for len(w.pend) > 0 {
		w.complete()
	}
	if w.incl() != 0 {
		vReach("multi-final-included")
	} else {
		vReach("multi-final-not-included")
	}
}

func VerifC14yMultiConf3() { c14yRunConf(3) }
