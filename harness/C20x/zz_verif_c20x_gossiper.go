package discovery

// Harness for C20x (extension of C20: only authentic, fresh gossip changes the
// channel graph), unit discovery: the REAL
//
//   (*AuthenticatedGossiper).handleChanUpdate
//   (*AuthenticatedGossiper).processZombieUpdate
//   (*AuthenticatedGossiper).isPremature / handleBadPeer / ShouldDisconnect
//   IsKeepAliveUpdate, completeGossipResult, newRejectCacheKey, sourceToPub
//   netann.ValidateChannelUpdateAnn / VerifyChannelUpdateSignature
//   models.ChanEdgePolicyFromWire, models.ChannelEdgeInfo.NodeKey1/2
//
// executed as one synchronous call on a gossiper built as a struct literal.
// Behind the interfaces / function fields the gossiper already has:
//
//   cfg.Graph (graph.ChannelGraphSource)  c20xGraph: answers IsStaleEdgePolicy /
//        GetChannelByID from the symbolic pre-state and RECORDS MarkEdgeLive /
//        UpdateEdge (every other method is a nil-interface panic)
//   cfg.IsAlias / cfg.FindBaseByAlias     closures over symbolic answers
//   cfg.ScidCloser                        c20xCloser (IsChannelPeer)
//   nMsg.peer (lnpeer.Peer)               c20xPeer (PubKey/IdentityKey/Disconnect)
//   nMsg.errPromise (actor.Promise)       c20xPromise, records the completion
//
// and the gossiper's own real caches (lru prematureChannelUpdates, futureMsgs,
// recentRejects, banman, multimutex, x/time/rate limiters).
//
// Ideal signatures exactly as in harness/C20 (zz_verif_c20_netann.go): the
// symbolic run replaces (*lnwire.Sig).ToSignature, btcec.ParsePubKey and
// chainhash.DoubleHashB; the native replay signs with four fixed test keys
// (RFC6979), applies the recorded corruption and runs the real functions.

import (
	"bytes"
	"context"
	"errors"
	"time"

	"github.com/btcsuite/btcd/btcec/v2"
	"github.com/btcsuite/btcd/btcec/v2/ecdsa"
	"github.com/btcsuite/btcd/btcutil/v2"
	"github.com/btcsuite/btcd/chaincfg/v2"
	"github.com/btcsuite/btcd/chainhash/v2"
	"github.com/lightninglabs/neutrino/cache/lru"
	"github.com/lightningnetwork/lnd/actor"
	"github.com/lightningnetwork/lnd/batch"
	"github.com/lightningnetwork/lnd/fn/v2"
	"github.com/lightningnetwork/lnd/graph"
	graphdb "github.com/lightningnetwork/lnd/graph/db"
	"github.com/lightningnetwork/lnd/graph/db/models"
	"github.com/lightningnetwork/lnd/input"
	"github.com/lightningnetwork/lnd/lnpeer"
	"github.com/lightningnetwork/lnd/lnwire"
	"github.com/lightningnetwork/lnd/multimutex"
	"golang.org/x/time/rate"
)

// ---------------------------------------------------------------------------
// fixed test keys and ideal crypto (same construction as harness/C20)
// ---------------------------------------------------------------------------

// c20xPubs[i] is the compressed public key of the private key whose 32 bytes
// are all 0x10*(i+1)+1 (checked natively in c20xPriv).
var c20xPubs = [4][33]byte{
	{0x03, 0x4f, 0x35, 0x5b, 0xdc, 0xb7, 0xcc, 0x0a, 0xf7, 0x28, 0xef, 0x3c, 0xce, 0xb9, 0x61, 0x5d, 0x90, 0x68, 0x4b, 0xb5, 0xb2, 0xca, 0x5f, 0x85, 0x9a, 0xb0, 0xf0, 0xb7, 0x04, 0x07, 0x58, 0x71, 0xaa},
	{0x02, 0x8d, 0x75, 0x00, 0xdd, 0x4c, 0x12, 0x68, 0x5d, 0x1f, 0x56, 0x8b, 0x4c, 0x2b, 0x50, 0x48, 0xe8, 0x53, 0x4b, 0x87, 0x33, 0x19, 0xf3, 0xa8, 0xda, 0xa6, 0x12, 0xb4, 0x69, 0x13, 0x2e, 0xc7, 0xf7},
	{0x03, 0x69, 0x30, 0xf4, 0x6d, 0xd0, 0xb1, 0x6d, 0x86, 0x6d, 0x59, 0xd1, 0x05, 0x4a, 0xa6, 0x32, 0x98, 0xb3, 0x57, 0x49, 0x9c, 0xd1, 0x86, 0x2e, 0xf1, 0x6f, 0x3f, 0x55, 0xf1, 0xca, 0xfc, 0xeb, 0x82},
	{0x02, 0xee, 0xc7, 0x24, 0x5d, 0x6b, 0x7d, 0x2c, 0xcb, 0x30, 0x38, 0x0b, 0xfb, 0xe2, 0xa3, 0x64, 0x8c, 0xd7, 0xa9, 0x42, 0x65, 0x3f, 0x5a, 0xa3, 0x40, 0xed, 0xce, 0xa1, 0xf2, 0x83, 0x68, 0x66, 0x19},
}

// c20xPub selects c20xPubs[i] (i < 4) without branching (one term per byte).
func c20xPub(i uint8) [33]byte {
	b0 := -(i & 1)
	b1 := -((i >> 1) & 1)
	b01 := b0 & b1
	var out [33]byte
	for j := 0; j < 33; j++ {
		x0, x1, x2, x3 := c20xPubs[0][j], c20xPubs[1][j], c20xPubs[2][j], c20xPubs[3][j]
		out[j] = x0 ^ (x0^x1)&b0 ^ (x0^x2)&b1 ^ (x0^x1^x2^x3)&b01
	}
	return out
}

// c20xPriv is only called natively.
func c20xPriv(i uint8) *btcec.PrivateKey {
	var b [32]byte
	for j := range b {
		b[j] = 0x10*(i+1) + 1
	}
	priv, pub := btcec.PrivKeyFromBytes(b[:])
	if !bytes.Equal(pub.SerializeCompressed(), c20xPubs[i][:]) {
		panic("c20x: public key table does not match the private keys")
	}
	return priv
}

type c20xIdealSig struct{ raw [64]byte }

func (s *c20xIdealSig) Serialize() []byte { return s.raw[:] }

// c20xSigUF: representation of the injective F(digest, key, corruption) that
// stands for "ECDSA signature, then xor" (see harness/C20/NOTES.md).
var c20xSigUF bool

// Verify: the value verifies iff it is the unaltered F(digest, key, none).
func (s *c20xIdealSig) Verify(digest []byte, key *btcec.PublicKey) bool {
	kb := c20xKeyBytes(key)
	if c20xSigUF {
		want := vHash("sig", 64, digest, kb, []byte{0, 0})
		return bytes.Equal(want, s.raw[:])
	}
	d := s.raw[32] &^ 3
	for i := 0; i < 32; i++ {
		d |= s.raw[i] ^ digest[i]
	}
	k := c20xPub(s.raw[32] & 3)
	for i := 0; i < 33; i++ {
		d |= k[i] ^ kb[i]
	}
	for i := 33; i < 64; i++ {
		d |= s.raw[i]
	}
	return d == 0
}

// vC20xToSignature replaces (*lnwire.Sig).ToSignature in the symbolic run.
func vC20xToSignature(s *lnwire.Sig) (input.Signature, error) {
	x := &c20xIdealSig{}
	copy(x.raw[:], s.RawBytes())
	return x, nil
}

// vC20xToSignatureBytes replaces (*lnwire.Sig).ToSignatureBytes (the 64-byte ->
// DER re-encoding whose result ChanEdgePolicyFromWire stores as SigBytes): it
// scans the signature for its first non-zero byte, one path per position. The
// stored SigBytes are not part of any obligation here.
func vC20xToSignatureBytes(s *lnwire.Sig) []byte {
	return append([]byte{}, s.RawBytes()...)
}

type c20xKeyEntry struct {
	p *btcec.PublicKey
	b []byte
}

var c20xKeyTab []c20xKeyEntry

var c20xErrBadKey = errors.New("c20x: malformed public key")

// vC20xParsePubKey replaces btcec.ParsePubKey in the symbolic run: an opaque
// handle for the bytes; fails like the real one for a format byte other than
// 02/03 (in particular for the blank key of the zombie index). All other keys
// this harness ever parses are the four genuine test keys.
func vC20xParsePubKey(b []byte) (*btcec.PublicKey, error) {
	if c20xB(b[0] != 2)&c20xB(b[0] != 3) == 1 {
		return nil, c20xErrBadKey
	}
	p := new(btcec.PublicKey)
	cp := make([]byte, len(b))
	copy(cp, b)
	c20xKeyTab = append(c20xKeyTab, c20xKeyEntry{p, cp})
	return p, nil
}

func c20xKeyBytes(p *btcec.PublicKey) []byte {
	for i := range c20xKeyTab {
		if c20xKeyTab[i].p == p {
			return c20xKeyTab[i].b
		}
	}
	panic("c20x: public key not produced by ParsePubKey")
}

const c20xPad = 192

// vC20xDoubleHashB replaces chainhash.DoubleHashB: one collision-free function
// over byte strings of any length up to c20xPad.
func vC20xDoubleHashB(b []byte) []byte {
	if len(b) > c20xPad {
		panic("c20x: message longer than the hash model's padding")
	}
	in := make([]byte, 2+c20xPad)
	in[0] = byte(len(b) >> 8)
	in[1] = byte(len(b))
	copy(in[2:], b)
	return vHash("dsha", 32, in)
}

// c20xSecs are the two durations handleChanUpdate compares a time difference
// with: graph.DefaultChannelPruneExpiry (skew check) and the configured
// RebroadcastInterval (keep-alive check), in seconds.
var c20xSecs = []int64{14 * 24 * 3600, 24 * 3600}

// vC20xSub replaces (time.Time).Sub in the symbolic run. The real Sub goes
// through a 64-bit multiply/divide by 1e9 that no solver back end finishes
// (harness/C20/NOTES.md "Staleness: time"), and a constant 64-bit multiply
// alone already forces the engine off its incremental solver. The model is a
// cut: the result is a fresh value r about which only the facts the gossiper
// uses are known - how r compares with the two constants of c20xSecs is how
// the whole-second difference d compares with them. For whole-second instants
// (time.Unix(sec, 0), the engine's time.Now) the real result d*1e9 satisfies
// exactly these facts (x*1e9 is strictly monotone and does not wrap for
// |x| < 2^33: VerifC20xMulLemma), so every real behaviour is covered. The
// native replay runs the real Sub.
func vC20xSub(t, u time.Time) time.Duration {
	d := t.Unix() - u.Unix()
	vLemma(d > -(1<<33) && d < 1<<33, "t - u fits 34 bits")
	r := time.Duration(vI64("sub.ns"))
	for _, e := range c20xSecs {
		vAssume((r > time.Duration(e)*time.Second) == (d > e))
		vAssume((r < time.Duration(e)*time.Second) == (d < e))
	}
	return r
}

// VerifC20xMulLemma proves the monotonicity fact vC20xSub assumes.
func VerifC20xMulLemma() {
	x := vI64("x")
	vAssume(x > -(1<<33) && x < 1<<33)
	e := c20xSecs[vChoice("e", len(c20xSecs))]
	r := time.Duration(x) * time.Second
	vAssert((r > time.Duration(e)*time.Second) == (x > e), "x*1e9 > e*1e9 iff x > e")
	vAssert((r < time.Duration(e)*time.Second) == (x < e), "x*1e9 < e*1e9 iff x < e")
}

func c20xIdeal() {
	vReplace("(*github.com/lightningnetwork/lnd/lnwire.Sig).ToSignature", "github.com/lightningnetwork/lnd/discovery.vC20xToSignature")
	vReplace("github.com/btcsuite/btcd/btcec/v2.ParsePubKey", "github.com/lightningnetwork/lnd/discovery.vC20xParsePubKey")
	vReplace("github.com/btcsuite/btcd/chainhash/v2.DoubleHashB", "github.com/lightningnetwork/lnd/discovery.vC20xDoubleHashB")
	vReplace("(*github.com/lightningnetwork/lnd/lnwire.Sig).ToSignatureBytes", "github.com/lightningnetwork/lnd/discovery.vC20xToSignatureBytes")
	vReplace("(time.Time).Sub", "github.com/lightningnetwork/lnd/discovery.vC20xSub")
	vInjective("sig")
	vInjective("dsha")
	vAssumption("ideal signatures: wire bytes are F(digest, key, corruption) for one collision-free F; they verify for (d, k) iff they equal F(d, k, none). Natively F is ECDSA under fixed test keys followed by the xor")
	vAssumption("ideal hash: chainhash.DoubleHashB is one collision-free function of the byte string")
	vAssumption("Sig.ToSignature succeeds on every input in the symbolic run; natively a malformed signature is an error, which the oracle classes as 'does not verify' as well")
	vAssumption("ParsePubKey fails iff the format byte is not 02/03 (stored node keys are genuine test keys or the blank key of the zombie index)")
	vAssumption("(time.Time).Sub(t, u) = (t - u) in whole seconds for whole-second instants; x*1e9 is monotone for |x| < 2^33 (proved separately by VerifC20xMulLemma)")
	c20xKeyTab = nil
	c20xSigUF = vChoice("sigmodel", 2) == 1
	vUnwind(512)
}

// c20xSign: the 64 wire bytes of a signature by test key `signer` over
// `digest`, with wire byte pos xored with val afterwards.
func c20xSign(digest []byte, signer uint8, pos, val uint8) lnwire.Sig {
	var out []byte
	if vNative() {
		sig := ecdsa.Sign(c20xPriv(signer), digest)
		ws, err := lnwire.NewSigFromSignature(sig)
		if err != nil {
			panic(err)
		}
		out = append([]byte{}, ws.RawBytes()...)
		out[pos] ^= val
	} else {
		k := c20xPub(signer)
		if val == 0 {
			pos = 0
		}
		if c20xSigUF {
			out = vHash("sig", 64, digest, k[:], []byte{pos, val})
		} else {
			out = make([]byte, 64)
			copy(out, digest)
			out[32], out[33], out[34] = signer, pos, val
		}
	}
	s, err := lnwire.NewSigFromWireECDSA(out)
	if err != nil {
		panic(err)
	}
	return s
}

// c20xSigSlot: who signed, what, and how the wire bytes were corrupted.
type c20xSigSlot struct {
	signer   uint8 // index of the test key that produced the signature
	other    uint8 // 1: the signer signed ANOTHER update, 0: this one
	pos, val uint8 // wire byte pos is xored with val
}

func c20xSlot(name string) c20xSigSlot {
	s := c20xSigSlot{signer: vU8(name + ".signer"), other: vU8(name + ".other"), pos: vU8(name + ".pos"), val: vU8(name + ".val")}
	vAssume(s.signer < 4 && s.other < 2 && s.pos < 64)
	return s
}

// authentic: made by the owner of `key` over exactly this message and not
// altered since.
func (s c20xSigSlot) authentic(key [33]byte) bool {
	k := c20xPub(s.signer)
	d := s.other | s.val
	for j := range k {
		d |= k[j] ^ key[j]
	}
	return d == 0
}

func (s c20xSigSlot) make(dThis, dOther []byte) lnwire.Sig {
	m := -s.other // 0x00 or 0xff
	d := make([]byte, 32)
	for i := range d {
		d[i] = dThis[i]&^m | dOther[i]&m
	}
	return c20xSign(d, s.signer, s.pos, s.val)
}

// ---------------------------------------------------------------------------
// channel_update: BOLT-7 reference serialisation (what a remote signer signs)
// ---------------------------------------------------------------------------

type c20xUpd struct {
	chain          [32]byte
	scid           lnwire.ShortChannelID
	ts             uint32
	mflags, cflags uint8
	tld            uint16
	min, max       uint64
	base, rate     uint32
	extra          []byte
}

func c20xSymScid(name string) lnwire.ShortChannelID {
	s := lnwire.ShortChannelID{BlockHeight: vU32(name + ".block"), TxIndex: vU32(name + ".tx"), TxPosition: vU16(name + ".pos")}
	// wire width: block height and tx index are 3-byte fields
	vAssume(s.BlockHeight < 1<<24 && s.TxIndex < 1<<24)
	return s
}

func c20xU16(b []byte, v uint16) []byte { return append(b, byte(v>>8), byte(v)) }
func c20xU32(b []byte, v uint32) []byte {
	return append(b, byte(v>>24), byte(v>>16), byte(v>>8), byte(v))
}
func c20xU64(b []byte, v uint64) []byte {
	return append(c20xU32(b, uint32(v>>32)), byte(v>>24), byte(v>>16), byte(v>>8), byte(v))
}

func c20xUpdRef(u *c20xUpd) []byte {
	b := append([]byte{}, u.chain[:]...)
	s := u.scid
	b = append(b, byte(s.BlockHeight>>16), byte(s.BlockHeight>>8), byte(s.BlockHeight))
	b = append(b, byte(s.TxIndex>>16), byte(s.TxIndex>>8), byte(s.TxIndex))
	b = c20xU16(b, s.TxPosition)
	b = c20xU32(b, u.ts)
	b = append(b, u.mflags, u.cflags)
	b = c20xU16(b, u.tld)
	b = c20xU64(b, u.min)
	b = c20xU32(b, u.base)
	b = c20xU32(b, u.rate)
	if u.mflags&1 != 0 { // option_channel_htlc_max
		b = c20xU64(b, u.max)
	}
	return append(b, u.extra...)
}

func c20xUpdWire(u *c20xUpd) *lnwire.ChannelUpdate1 {
	return &lnwire.ChannelUpdate1{
		ChainHash:       u.chain,
		ShortChannelID:  u.scid,
		Timestamp:       u.ts,
		MessageFlags:    lnwire.ChanUpdateMsgFlags(u.mflags),
		ChannelFlags:    lnwire.ChanUpdateChanFlags(u.cflags),
		TimeLockDelta:   u.tld,
		HtlcMinimumMsat: lnwire.MilliSatoshi(u.min),
		BaseFee:         u.base,
		FeeRate:         u.rate,
		HtlcMaximumMsat: lnwire.MilliSatoshi(u.max),
		ExtraOpaqueData: u.extra,
	}
}

// c20xMaxSat: no funding output can hold more than the 21e6 BTC that will ever
// exist; capacity*1000 then fits 64 bits, as lnd assumes.
const c20xMaxSat = 21_000_000 * 100_000_000

// ---------------------------------------------------------------------------
// recording fakes
// ---------------------------------------------------------------------------

var (
	c20xErrNoBase  = errors.New("c20x: no base scid for this alias")
	c20xErrStore   = errors.New("c20x: graph store failure")
	c20xGenesisVal = chainhash.Hash{0x6f, 0xe2, 0x8c, 0x0a, 0xb6, 0xf1, 0xb3, 0x72, 0xc1, 0xa6, 0xa2, 0x46, 0xae, 0x63, 0xf7, 0x4f, 0x93, 0x1e, 0x83, 0x65, 0xe1, 0x5a, 0x08, 0x9c, 0x68, 0xd6, 0x19, 0x00, 0x00, 0x00, 0x00, 0x00}
)

const (
	c20xUnknown = 0
	c20xKnown   = 1
	c20xZombie  = 2
	c20xDBErr   = 3
)

type c20xLive struct {
	v    lnwire.GossipVersion
	scid lnwire.ShortChannelID
}

// c20xGraph is the graph.ChannelGraphSource behind the gossiper. The embedded
// interface is nil: any method the unit is not expected to use panics.
//
// Parts of the pre-state that only matter once the gossiper asks for them are
// drawn when it asks (lazily), so that the symbolic run does not split on them
// for updates that are rejected earlier: the stored channel (GetChannelByID)
// and the answers of MarkEdgeLive / UpdateEdge. The native replay draws the
// same values in the same order.
type c20xGraph struct {
	graph.ChannelGraphSource

	// pre-state
	state  int
	stale  bool
	known  func()                  // builds info, e1, e2 for a known channel
	info   *models.ChannelEdgeInfo // known: full info; zombie: the two index keys only
	e1, e2 *models.ChannelEdgePolicy

	// recordings
	staleAsked int
	staleScid  lnwire.ShortChannelID
	staleTs    time.Time
	staleFlags lnwire.ChanUpdateChanFlags
	getAsked   int
	getScid    lnwire.ShortChannelID
	live       []c20xLive
	liveErr    error // what MarkEdgeLive answered
	applied    []*models.ChannelEdgePolicy
	applyErr   error // what UpdateEdge answered
}

func (g *c20xGraph) IsStaleEdgePolicy(chanID lnwire.ShortChannelID, ts time.Time,
	flags lnwire.ChanUpdateChanFlags) bool {

	g.staleAsked++
	g.staleScid, g.staleTs, g.staleFlags = chanID, ts, flags
	return g.stale
}

func (g *c20xGraph) GetChannelByID(chanID lnwire.ShortChannelID) (*models.ChannelEdgeInfo,
	*models.ChannelEdgePolicy, *models.ChannelEdgePolicy, error) {

	g.getAsked++
	g.getScid = chanID
	switch g.state {
	case c20xKnown:
		if g.info == nil {
			g.known()
		}
		return g.info, g.e1, g.e2, nil
	case c20xZombie:
		// what KVStore/SQLStore.FetchChannelEdgesByID return for a zombie:
		// an info carrying only the two keys of the zombie index
		return g.info, nil, nil, graphdb.ErrZombieEdge
	case c20xDBErr:
		return nil, nil, nil, c20xErrStore
	}
	return nil, nil, nil, graphdb.ErrEdgeNotFound
}

func (g *c20xGraph) MarkEdgeLive(v lnwire.GossipVersion, chanID lnwire.ShortChannelID) error {
	g.live = append(g.live, c20xLive{v, chanID})
	switch c20xLt3("liveErr") {
	case 1:
		g.liveErr = graphdb.ErrZombieEdgeNotFound
	case 2:
		g.liveErr = c20xErrStore
	}
	return g.liveErr
}

func (g *c20xGraph) UpdateEdge(_ context.Context, p *models.ChannelEdgePolicy,
	_ ...batch.SchedulerOption) error {

	g.applied = append(g.applied, p)
	switch c20xLt3("applyErr") {
	case 1:
		g.applyErr = graph.NewErrf(graph.ErrOutdated, "c20x: outdated")
	case 2:
		g.applyErr = c20xErrStore
	}
	return g.applyErr
}

func c20xLt3(name string) uint8 {
	v := vU8(name)
	vAssume(v < 3)
	return v
}

type c20xCloser struct {
	ClosedChannelTracker
	chanPeer bool
}

func (c *c20xCloser) IsChannelPeer(*btcec.PublicKey) (bool, error) { return c.chanPeer, nil }

type c20xPeer struct {
	lnpeer.Peer
	id           *btcec.PublicKey
	disconnected int
}

func (p *c20xPeer) PubKey() [33]byte              { return c20xPubs[3] }
func (p *c20xPeer) IdentityKey() *btcec.PublicKey { return p.id }
func (p *c20xPeer) Disconnect(error)              { p.disconnected++ }

// c20xPromise records how the gossiper resolved the message (this is what
// ProcessRemoteAnnouncement's caller awaits).
type c20xPromise struct {
	calls int
	err   error
}

func (p *c20xPromise) Future() actor.Future[error] { return nil }
func (p *c20xPromise) Complete(r fn.Result[error]) bool {
	p.calls++
	if p.calls > 1 {
		return false
	}
	v, err := r.Unpack()
	if err != nil {
		v = err
	}
	p.err = v
	return true
}

// ---------------------------------------------------------------------------
// the entry
// ---------------------------------------------------------------------------

// c20xBlankable returns key, or the blank key when blank is set, without
// branching.
func c20xBlankable(key [33]byte, blank bool) [33]byte {
	m := byte(0xff)
	if blank {
		m = 0
	}
	for i := range key {
		key[i] &= m
	}
	return key
}

// VerifC20xChanUpdate drives one channel_update through the real
// handleChanUpdate.
//
// Pre-state (symbolic): the channel is unknown / known / in the zombie index /
// the store fails; for a known channel both node keys, capacity, proof, the
// stored policies of both directions (present or not, symbolic fields); for a
// zombie which of the two index keys are blank; what the graph answers to
// IsStaleEdgePolicy, MarkEdgeLive, UpdateEdge; best height; alias mapping;
// rate limiter state.
// Message (symbolic): every wire field; who signed (any of 4 test keys), what
// (this update or another one differing in at least one field), one signature
// byte corrupted or not; remote or local origin.
//
// Oracle:
//
//	UpdateEdge called  => channel known AND signature authentic for exactly the
//	    key of the node that owns the claimed direction AND fields consistent
//	    AND the graph said "not stale" for (graph scid, timestamp, flags) of
//	    THIS update AND the policy handed over carries this update's fields;
//	MarkEdgeLive called => channel is a zombie AND signature authentic for the
//	    node owning the claimed direction AND that node's key is present in
//	    the zombie index (it is one allowed to resurrect);
//	relayed (returned for broadcast) => UpdateEdge was called and succeeded;
//	stashed as premature => unknown channel, or zombie that was just
//	    legitimately resurrected;
//	an update that is inauthentic / inconsistent / stale / for another chain /
//	    has timestamp 0 / is too far in the future causes no MarkEdgeLive, no
//	    UpdateEdge, no stash, no relay; and is answered with an error where
//	    the gossiper got as far as checking it.
//	Conversely an authentic, consistent, fresh update of a known channel is
//	applied (unless it is a remote update hitting the keep-alive / rate
//	limit), and an authentic one from the allowed side resurrects the zombie.
func VerifC20xChanUpdate() {
	c20xIdeal()
	// The replay clock is later than 2025-06-15; the symbolic clock is
	// told so (update timestamps "in the past" below are before that).
	t0 := time.Now().Unix()
	vAssume(t0 >= 1_750_000_000)

	// --- the update -------------------------------------------------
	u := &c20xUpd{
		scid: c20xSymScid("scid"), ts: vU32("ts"), mflags: vU8("mflags"), cflags: vU8("cflags"),
		tld: vU16("tld"), min: vU64("min"), max: vU64("max"), base: vU32("base"), rate: vU32("rate"),
		extra: vBytes("extra", C20X_EXTRA*vChoice("extra.len", 2)),
	}
	// chain hash: ours, or ours with one byte altered
	u.chain = c20xGenesisVal
	cpos, cval := vU8("chain.pos"), vU8("chain.val")
	vAssume(cpos < 32)
	for j := range u.chain {
		hit := byte((uint16(uint8(j)^cpos) - 1) >> 8) // 0xff iff j == cpos
		u.chain[j] ^= cval & hit
	}
	chainOK := cval == 0
	// timestamp domain: the skew check compares with the wall clock of the
	// run, which the native replay cannot choose. far=0: any timestamp
	// before 2025-06-15 (never "too far in the future"); far=1: after
	// 2096-10 (always too far in the future while the run happens before
	// 2093). The window between is outside.
	far := vChoice("far", 2) == 1
	if far {
		vAssume(u.ts > 4_000_000_000)
	} else {
		vAssume(u.ts < 1_750_000_000)
	}

	// the OTHER update a signer may have signed instead: differs from u in
	// at least one of timestamp, channel flags, scid (an older update, the update
	// of the other direction, of another channel)
	o := *u
	o.ts, o.cflags, o.scid = vU32("o.ts"), vU8("o.cflags"), c20xSymScid("o.scid")
	vAssume(o.ts != u.ts || o.cflags != u.cflags || o.scid != u.scid)

	slot := c20xSlot("sig")
	w := c20xUpdWire(u)
	w.Signature = slot.make(chainhash.DoubleHashB(c20xUpdRef(u)), chainhash.DoubleHashB(c20xUpdRef(&o)))

	// --- the graph --------------------------------------------------
	i1, i2 := vU8("node1.idx"), vU8("node2.idx")
	vAssume(i1 < 4 && i2 < 4 && i1 != i2) // two different nodes
	n1, n2 := c20xPub(i1), c20xPub(i2)
	g := &c20xGraph{state: vChoice("state", 4), stale: vBool("stale")}
	capSat := vI64("capacity")
	vAssume(capSat >= 0 && capSat <= c20xMaxSat)
	chanID := vU64("stored.chanid")
	blank1, blank2 := vBool("zombie.blank1"), vBool("zombie.blank2")
	// The "plumbing" of the pre-state is a concrete profile (vChoice: pinned
	// per shard, see spec.json): origin of the message, alias handling,
	// whether the channel is announced, whether policies are stored.
	isRemote := vChoice("remote", 2) == 1
	isAlias := vChoice("alias", 2) == 1
	hasBase := vChoice("hasBase", 2) == 1
	hasProof := vChoice("proof", 2) == 1
	present := vChoice("stored", 2) == 1
	seeded := vChoice("limiter", 2) == 1
	// A LOCAL update of an unannounced channel is additionally handed to the
	// reliable sender (goroutines, message store): outside.
	vAssume(isRemote || hasProof || g.state != c20xKnown)
	var d *AuthenticatedGossiper
	g.known = func() {
		g.info = &models.ChannelEdgeInfo{
			Version: lnwire.GossipVersion1, ChannelID: chanID,
			NodeKey1Bytes: n1, NodeKey2Bytes: n2, Capacity: btcutil.Amount(capSat),
		}
		if hasProof {
			g.info.AuthProof = &models.ChannelAuthProof{}
		}
		// Stored policies: none, or both directions. Any last-update time;
		// the other fields are the update's, except the base fee (xor any
		// value) and the disabled bit (any), so that the update is or is
		// not a keep-alive of the stored policy.
		if present {
			var st [2]*models.ChannelEdgePolicy
			for k := 0; k < 2; k++ {
				name := [2]string{"e1", "e2"}[k]
				st[k] = &models.ChannelEdgePolicy{
					Version: lnwire.GossipVersion1, ChannelID: chanID,
					LastUpdate:                time.Unix(int64(vU32(name+".last")), 0),
					MessageFlags:              lnwire.ChanUpdateMsgFlags(u.mflags),
					ChannelFlags:              lnwire.ChanUpdateChanFlags(u.cflags&^3 | vU8(name+".disabled")&2 | uint8(k)),
					TimeLockDelta:             u.tld,
					MinHTLC:                   lnwire.MilliSatoshi(u.min),
					MaxHTLC:                   lnwire.MilliSatoshi(u.max),
					FeeBaseMSat:               lnwire.MilliSatoshi(u.base ^ vU32(name+".dbase")),
					FeeProportionalMillionths: lnwire.MilliSatoshi(u.rate),
					ExtraOpaqueData:           u.extra,
				}
			}
			g.e1, g.e2 = st[0], st[1]
			// gossiper state: the rate limiters of this channel do not
			// exist yet, or exist with limit 0 and 0 or 1 tokens left in
			// each direction
			if seeded {
				b0, b1 := int(vU8("ratelimit.burst0")&1), int(vU8("ratelimit.burst1")&1)
				d.chanUpdateRateLimiter[chanID] = [2]*rate.Limiter{rate.NewLimiter(0, b0), rate.NewLimiter(0, b1)}
			}
		}
	}
	if g.state == c20xZombie {
		// The zombie index holds, per slot, the node's key or the blank
		// key (graph/db makeZombiePubkeys: harness/C20 VerifC20ZombieKeys;
		// Builder.MarkZombieEdge stores two blank keys).
		g.info = &models.ChannelEdgeInfo{
			NodeKey1Bytes: c20xBlankable(n1, blank1),
			NodeKey2Bytes: c20xBlankable(n2, blank2),
		}
	}

	// --- the gossiper -----------------------------------------------
	base := c20xSymScid("base")
	genesis := c20xGenesisVal
	closer := &c20xCloser{chanPeer: vBool("chanPeer")}
	d = &AuthenticatedGossiper{
		bestHeight: vU32("bestHeight"),
		cfg: &Config{
			ChainParams: &chaincfg.Params{GenesisHash: &genesis},
			Graph:       g,
			ScidCloser:  closer,
			IsAlias:     func(lnwire.ShortChannelID) bool { return isAlias },
			FindBaseByAlias: func(lnwire.ShortChannelID) (lnwire.ShortChannelID, error) {
				if hasBase {
					return base, nil
				}
				return lnwire.ShortChannelID{}, c20xErrNoBase
			},
			RebroadcastInterval: 24 * time.Hour,
			// a non-positive interval = no rate limit for limiters the
			// gossiper creates itself (rate.Inf); the denying limiters are
			// seeded by g.known. Both avoid the float64 token arithmetic
			// of x/time/rate on a symbolic clock.
			ChannelUpdateInterval: 0,
			MaxChannelUpdateBurst: 1,
		},
		prematureChannelUpdates: lru.NewCache[uint64, *cachedNetworkMsg](maxPrematureUpdates),
		futureMsgs:              newFutureMsgCache(maxFutureMessages),
		channelMtx:              multimutex.NewMutex[uint64](),
		recentRejects:           lru.NewCache[rejectCacheKey, *cachedReject](maxRejectedUpdates),
		chanUpdateRateLimiter:   make(map[uint64][2]*rate.Limiter),
		banman:                  newBanman(DefaultBanThreshold),
	}

	src, err := btcec.ParsePubKey(c20xPubs[3][:])
	if err != nil {
		panic(err)
	}
	peer := &c20xPeer{id: src}
	prom := &c20xPromise{}
	nMsg := &networkMsg{peer: peer, source: src, msg: w, isRemote: isRemote, errPromise: prom}

	// ================= the real code =================
	anns, _ := d.handleChanUpdate(context.Background(), nMsg, w, nil)
	// =================================================

	if far {
		// the run happens before 2093-08
		vAssume(time.Now().Unix() < 3_900_000_000)
	}

	// --- what the property says ---------------------------------------
	// Facts are 0/1 bytes combined with & | ^ (c20xB turns one comparison
	// into a byte): Go's && / || chains compile to multi-way control flow on
	// which the symbolic run would split once per operand.
	const T, F = uint8(1), uint8(0)
	dir := u.cflags & 1
	owner := c20xSel(n1, n2, dir)
	ownerBlank := (dir^1)&c20xB(blank1) | dir&c20xB(blank2)
	auth := c20xB(slot.authentic(owner))
	capKnown := c20xB(capSat != 0)
	fieldsOK := u.mflags & 1 & c20xB(u.max != 0) & c20xB(u.min <= u.max) &
		(capKnown ^ 1 | c20xB(u.max <= uint64(capSat)*1000))
	graphScid := c20xSelScid(u.scid, base, hasBase)
	premature := F
	if isRemote && !isAlias { // concrete profile
		premature = c20xB(u.scid.BlockHeight > d.bestHeight)
	}
	farB := F
	if far {
		farB = T
	}
	okChain, stale := c20xB(chainOK), c20xB(g.stale)
	// the gossiper gets as far as looking at the channel:
	looked := okChain & (premature ^ 1) & c20xB(u.ts != 0) & (stale ^ 1) & (farB ^ 1)
	askedRight := c20xB(g.staleScid == graphScid) & c20xB(g.staleFlags == lnwire.ChanUpdateChanFlags(u.cflags)) &
		c20xB(g.staleTs.Unix() == int64(u.ts))
	if g.staleAsked != 1 {
		askedRight = F
	}

	nApplied, nLive := len(g.applied), len(g.live)
	_, stashErr := d.prematureChannelUpdates.Get(u.scid.ToUint64())
	stashed := stashErr == nil
	relayed := len(anns) > 0
	parked := d.futureMsgs.Len() > 0
	answered := prom.calls == 1
	refused := F // answered with an error
	if prom.calls == 1 && prom.err != nil {
		refused = T
	}

	vAssert(nApplied <= 1 && nLive <= 1 && len(anns) <= 1 && prom.calls <= 1 && d.prematureChannelUpdates.Len() <= 1,
		"one update causes at most one graph operation, one stash, one relay and one answer")

	// -- soundness -----------------------------------------------------
	if nApplied == 1 {
		p := g.applied[0]
		vAssert(g.state == c20xKnown, "UpdateEdge for a channel that is not a known live edge")
		vAssert(auth == T, "channel_update applied although its signature is not authentic for the node that owns the claimed direction")
		vAssert(fieldsOK&looked == T, "channel_update applied although its fields are inconsistent or it is for another chain / premature / has timestamp 0 / is stale / is too far in the future")
		vAssert(askedRight&c20xB(g.getScid == graphScid)&c20xB(g.getAsked == 1) == T, "freshness / the channel was looked up for another channel, direction or timestamp than the update's")
		same := c20xB(p.ChannelID == chanID) & c20xB(p.LastUpdate.Unix() == int64(u.ts)) &
			c20xB(uint8(p.ChannelFlags) == u.cflags) & c20xB(uint8(p.MessageFlags) == u.mflags) &
			c20xB(p.TimeLockDelta == u.tld) & c20xB(uint64(p.MinHTLC) == u.min) & c20xB(uint64(p.MaxHTLC) == u.max) &
			c20xB(uint64(p.FeeBaseMSat) == uint64(u.base)) & c20xB(uint64(p.FeeProportionalMillionths) == uint64(u.rate)) &
			c20xB(bytes.Equal(p.ExtraOpaqueData, u.extra))
		vAssert(same&c20xB(p.Version == lnwire.GossipVersion1) == T, "the policy handed to the graph differs from the signed update or names another channel id than the stored one")
	}
	if nLive == 1 {
		vAssert(g.state == c20xZombie, "MarkEdgeLive for a channel that is not a zombie")
		vAssert(auth == T, "zombie resurrected by an update whose signature is not authentic for the node that owns the claimed direction")
		vAssert(ownerBlank == F, "zombie resurrected by the side whose key is not in the zombie index")
		vAssert(looked&askedRight&c20xB(g.live[0].scid == graphScid)&c20xB(g.live[0].v == lnwire.GossipVersion1) == T,
			"zombie resurrected by an update for another chain / premature / timestamp 0 / stale / too far in the future, or another channel was marked live")
	}
	if relayed {
		vAssert(nApplied == 1 && g.applyErr == nil && hasProof && !isAlias &&
			anns[0].msg == lnwire.Message(w) && anns[0].isRemote == isRemote,
			"channel_update relayed although it was not applied to the graph / the channel is unannounced / the scid is an alias, or something else was relayed")
	}
	if stashed {
		legit := g.state == c20xUnknown || (g.state == c20xZombie && nLive == 1 && g.liveErr != c20xErrStore) // concrete
		vAssert(looked&c20xB(legit) == T,
			"update stashed for later although it was rejected, the channel is known, the store failed or the zombie was not resurrected")
	}
	if parked {
		vAssert(premature&okChain&c20xB(nApplied == 0 && nLive == 0 && !relayed && !stashed) == T,
			"update parked for a future height although it is not premature, or a premature update changed the graph")
	}

	// -- rejected => answered with an error ------------------------------
	// (a => b written as a^1 | b)
	if g.state == c20xKnown || g.state == c20xZombie {
		vAssert((looked&(auth^1))^1|refused == T, "inauthentic update was not answered with an error")
	}
	if g.state == c20xKnown {
		vAssert((looked&(fieldsOK^1))^1|refused == T, "inconsistent update was not answered with an error")
	}
	if g.state == c20xZombie {
		vAssert((looked&ownerBlank)^1|refused == T, "update from the side that may not resurrect was not answered with an error")
	}
	skewed := okChain & farB & (premature ^ 1) & c20xB(u.ts != 0) & (stale ^ 1)
	vAssert(((okChain^1)|skewed)^1|refused == T, "update for another chain / too far in the future was not answered with an error")

	// -- completeness ---------------------------------------------------
	good := looked & auth
	if g.state == c20xKnown {
		// a remote update of a direction that has a stored policy may be
		// dropped by the keep-alive / rate limit
		throttleable := isRemote && g.e1 != nil // concrete
		if !throttleable {
			vAssert((good&fieldsOK)^1|c20xB(nApplied == 1) == T, "authentic, consistent, fresh update of a known channel was not applied")
		}
		if nApplied == 0 {
			vAssert((good&fieldsOK)^1|(c20xB(answered)&(refused^1)) == T, "throttled update must be answered without error")
		}
		if nApplied == 1 && g.applyErr == nil && hasProof && !isAlias {
			vAssert(relayed, "applied update of an announced channel was not relayed")
		}
	}
	if g.state == c20xZombie {
		vAssert((good&(ownerBlank^1))^1|c20xB(nLive == 1) == T, "authentic update from the side allowed to resurrect did not resurrect the zombie")
	}

	// -- witnesses (branches on symbolic values only from here on) ---------
	vObserve("applied", nApplied)
	vObserve("live", nLive)
	vObserve("relayed", relayed)
	vObserve("stashed", stashed)
	vObserve("parked", parked)
	switch {
	case nApplied == 1 && relayed:
		vReach("applied-relayed")
	case nApplied == 1:
		vReach("applied-not-relayed")
	case nLive == 1 && stashed:
		vReach("zombie-resurrected")
	case nLive == 1:
		vReach("zombie-live-failed")
	case stashed:
		vReach("unknown-stashed")
	case parked:
		vReach("premature-parked")
	case !chainOK:
		vReach("reject-chain")
	case u.ts == 0:
		vReach("reject-zero-timestamp")
	case g.staleAsked == 1 && g.stale:
		vReach("ignored-stale")
	case far:
		vReach("reject-skew")
	case g.state == c20xDBErr:
		vReach("reject-store-error")
	case g.state == c20xZombie && ownerBlank == T:
		vReach("zombie-reject-blank-key")
	case g.state == c20xZombie:
		vReach("zombie-reject-signature")
	case g.state == c20xKnown && fieldsOK == F:
		vReach("reject-fields")
	case g.state == c20xKnown && auth == F:
		vReach("reject-signature")
	case g.state == c20xKnown:
		vReach("throttled")
	}
}

// c20xB turns a condition into a 0/1 byte (one pure diamond, which the
// symbolic run evaluates without splitting).
func c20xB(b bool) uint8 {
	r := uint8(0)
	if b {
		r = 1
	}
	return r
}

// c20xSel returns a for sel == 0 and b for sel == 1, without branching.
func c20xSel(a, b [33]byte, sel uint8) [33]byte {
	m := -(sel & 1)
	for i := range a {
		a[i] = a[i]&^m | b[i]&m
	}
	return a
}

func c20xSelScid(a, b lnwire.ShortChannelID, useB bool) lnwire.ShortChannelID {
	m32, m16 := uint32(0), uint16(0)
	if useB {
		m32, m16 = ^uint32(0), ^uint16(0)
	}
	return lnwire.ShortChannelID{
		BlockHeight: a.BlockHeight&^m32 | b.BlockHeight&m32,
		TxIndex:     a.TxIndex&^m32 | b.TxIndex&m32,
		TxPosition:  a.TxPosition&^m16 | b.TxPosition&m16,
	}
}
