package paymentsdb

// C16x (extension of C16): in-memory fakes behind interfaces lnd already has,
// copied from harness/C16 under new names (c16x...):
//   c16xkvDB  - walletdb.DB (kvdb backend) for the real KVStore
//   c16xSQL   - BatchedSQLQueries (sqlc query layer) for the real SQLStore
// Harness code, no lnd logic. See harness/C16/NOTES.md for the sanity checks
// of the two fakes.

import (
	"bytes"
	"context"
	"database/sql"
	"encoding/binary"

	"github.com/btcsuite/btcwallet/walletdb"
	"github.com/lightningnetwork/lnd/kvdb"
	"github.com/lightningnetwork/lnd/sqldb"
	"github.com/lightningnetwork/lnd/sqldb/sqlc"
)

// string-based error type: constants, no package-level initialiser needed.
type c16xErr string

func (e c16xErr) Error() string { return string(e) }

const (
	errC16xKVCommit = c16xErr("c16x fake kvdb: injected commit failure")
	errC16xUnique   = c16xErr("fake sql: UNIQUE constraint failed")
	errC16xFK       = c16xErr("fake sql: FOREIGN KEY constraint failed")
	errC16xUnused   = c16xErr("fake sql: query not used by the harness")
)

// c16xkvNode is one bucket: key/value pairs and nested buckets, each list kept
// in byte order of the keys. Byte slices are never modified in place.
type c16xkvNode struct {
	keys, vals [][]byte
	subKeys    [][]byte
	subs       []*c16xkvNode
	seq        uint64
}

func c16xkvCopy(b []byte) []byte {
	c := make([]byte, len(b))
	copy(c, b)
	return c
}

func (n *c16xkvNode) clone() *c16xkvNode {
	c := &c16xkvNode{seq: n.seq}
	c.keys = append([][]byte(nil), n.keys...)
	c.vals = append([][]byte(nil), n.vals...)
	c.subKeys = append([][]byte(nil), n.subKeys...)
	for _, s := range n.subs {
		c.subs = append(c.subs, s.clone())
	}
	return c
}

// c16xkvLess: lexicographic byte order. Leading len%8 bytes one by one, the
// rest in big-endian 8-byte words (same order, one comparison per word; the
// attempt keys are a 2-byte prefix followed by the 8-byte big-endian id).
func c16xkvLess(a, b []byte) bool {
	n := len(a)
	if len(b) < n {
		n = len(b)
	}
	i := 0
	for ; i < n%8; i++ {
		if a[i] != b[i] {
			return a[i] < b[i]
		}
	}
	for ; i+8 <= n; i += 8 {
		x, y := binary.BigEndian.Uint64(a[i:i+8]), binary.BigEndian.Uint64(b[i:i+8])
		if x != y {
			return x < y
		}
	}
	return len(a) < len(b)
}

func c16xkvIndex(keys [][]byte, k []byte) int {
	for i := range keys {
		if bytes.Equal(keys[i], k) {
			return i
		}
	}
	return -1
}

// c16xkvPos: position at which k has to be inserted to keep keys ordered.
func c16xkvPos(keys [][]byte, k []byte) int {
	pos := 0
	for pos < len(keys) && c16xkvLess(keys[pos], k) {
		pos++
	}
	return pos
}

func c16xkvInsert(list [][]byte, pos int, v []byte) [][]byte {
	out := make([][]byte, 0, len(list)+1)
	out = append(out, list[:pos]...)
	out = append(out, v)
	out = append(out, list[pos:]...)
	return out
}

func c16xkvRemove(list [][]byte, pos int) [][]byte {
	out := make([][]byte, 0, len(list))
	out = append(out, list[:pos]...)
	out = append(out, list[pos+1:]...)
	return out
}

type c16xkvDB struct {
	kvdb.Backend // nil: every method not defined below panics

	top *c16xkvNode // top-level buckets are the nested buckets of this node

	// failable: write transactions draw a symbolic commit-failure flag
	// (switched on for the operation under judgement only). injected
	// records that one of them fired.
	failable bool
	injected bool
	writeTxs int
}

type c16xkvTx struct {
	kvdb.RwTx // nil: every method not defined below panics

	db *c16xkvDB
	rw bool
}

type c16xkvB struct {
	kvdb.RwBucket // nil: every method not defined below panics

	n  *c16xkvNode
	tx *c16xkvTx
}

func (d *c16xkvDB) View(f func(tx walletdb.ReadTx) error, reset func()) error {
	reset()
	return f(&c16xkvTx{db: d})
}

// write runs one atomic read-write transaction.
func (d *c16xkvDB) write(f func(tx walletdb.ReadWriteTx) error) error {
	d.writeTxs++
	snap := d.top.clone()
	err := f(&c16xkvTx{db: d, rw: true})
	if err == nil && d.failable && vBool("kvCommitFails") {
		d.injected = true
		err = errC16xKVCommit
	}
	if err != nil {
		d.top = snap // rollback
		return err
	}
	return nil
}

func (d *c16xkvDB) Update(f func(tx walletdb.ReadWriteTx) error, reset func()) error {
	reset()
	return d.write(f)
}

// Batch: bbolt's Batch is Update for a single caller (walletdb.BatchDB).
func (d *c16xkvDB) Batch(f func(tx walletdb.ReadWriteTx) error) error {
	return d.write(f)
}

func (t *c16xkvTx) top(key []byte) *c16xkvB {
	if i := c16xkvIndex(t.db.top.subKeys, key); i >= 0 {
		return &c16xkvB{n: t.db.top.subs[i], tx: t}
	}
	return nil
}

func (t *c16xkvTx) ReadBucket(key []byte) walletdb.ReadBucket {
	if b := t.top(key); b != nil {
		return b
	}
	return nil
}

func (t *c16xkvTx) ReadWriteBucket(key []byte) walletdb.ReadWriteBucket {
	if b := t.top(key); b != nil {
		return b
	}
	return nil
}

func (t *c16xkvTx) CreateTopLevelBucket(key []byte) (walletdb.ReadWriteBucket, error) {
	root := &c16xkvB{n: t.db.top, tx: t}
	return root.CreateBucketIfNotExists(key)
}

func (b *c16xkvB) Get(key []byte) []byte {
	if i := c16xkvIndex(b.n.keys, key); i >= 0 {
		return b.n.vals[i]
	}
	return nil // unknown key, or the key of a nested bucket
}

func (b *c16xkvB) Put(key, value []byte) error {
	if !b.tx.rw {
		return walletdb.ErrTxNotWritable
	}
	if len(key) == 0 {
		return walletdb.ErrKeyRequired
	}
	if c16xkvIndex(b.n.subKeys, key) >= 0 {
		return walletdb.ErrIncompatibleValue
	}
	v := c16xkvCopy(value)
	if i := c16xkvIndex(b.n.keys, key); i >= 0 {
		vals := append([][]byte(nil), b.n.vals...)
		vals[i] = v
		b.n.vals = vals
		return nil
	}
	pos := c16xkvPos(b.n.keys, key)
	b.n.keys = c16xkvInsert(b.n.keys, pos, c16xkvCopy(key))
	b.n.vals = c16xkvInsert(b.n.vals, pos, v)
	return nil
}

func (b *c16xkvB) Delete(key []byte) error {
	if !b.tx.rw {
		return walletdb.ErrTxNotWritable
	}
	if c16xkvIndex(b.n.subKeys, key) >= 0 {
		return walletdb.ErrIncompatibleValue
	}
	i := c16xkvIndex(b.n.keys, key)
	if i < 0 {
		return nil
	}
	b.n.keys = c16xkvRemove(b.n.keys, i)
	b.n.vals = c16xkvRemove(b.n.vals, i)
	return nil
}

// ForEach: keys and nested buckets (value nil) merged in key order.
func (b *c16xkvB) ForEach(f func(k, v []byte) error) error {
	keys, vals, subKeys := b.n.keys, b.n.vals, b.n.subKeys
	i, j := 0, 0
	for i < len(keys) || j < len(subKeys) {
		if j >= len(subKeys) || (i < len(keys) && c16xkvLess(keys[i], subKeys[j])) {
			if err := f(keys[i], vals[i]); err != nil {
				return err
			}
			i++
			continue
		}
		if err := f(subKeys[j], nil); err != nil {
			return err
		}
		j++
	}
	return nil
}

func (b *c16xkvB) nested(key []byte) *c16xkvB {
	if i := c16xkvIndex(b.n.subKeys, key); i >= 0 {
		return &c16xkvB{n: b.n.subs[i], tx: b.tx}
	}
	return nil
}

func (b *c16xkvB) NestedReadBucket(key []byte) walletdb.ReadBucket {
	if s := b.nested(key); s != nil {
		return s
	}
	return nil
}

func (b *c16xkvB) NestedReadWriteBucket(key []byte) walletdb.ReadWriteBucket {
	if s := b.nested(key); s != nil {
		return s
	}
	return nil
}

func (b *c16xkvB) CreateBucketIfNotExists(key []byte) (walletdb.ReadWriteBucket, error) {
	if !b.tx.rw {
		return nil, walletdb.ErrTxNotWritable
	}
	if len(key) == 0 {
		return nil, walletdb.ErrBucketNameRequired
	}
	if s := b.nested(key); s != nil {
		return s, nil
	}
	if c16xkvIndex(b.n.keys, key) >= 0 {
		return nil, walletdb.ErrIncompatibleValue
	}
	pos := c16xkvPos(b.n.subKeys, key)
	s := &c16xkvNode{}
	b.n.subKeys = c16xkvInsert(b.n.subKeys, pos, c16xkvCopy(key))
	subs := make([]*c16xkvNode, 0, len(b.n.subs)+1)
	subs = append(subs, b.n.subs[:pos]...)
	subs = append(subs, s)
	subs = append(subs, b.n.subs[pos:]...)
	b.n.subs = subs
	return &c16xkvB{n: s, tx: b.tx}, nil
}

func (b *c16xkvB) DeleteNestedBucket(key []byte) error {
	if !b.tx.rw {
		return walletdb.ErrTxNotWritable
	}
	i := c16xkvIndex(b.n.subKeys, key)
	if i < 0 {
		return walletdb.ErrBucketNotFound
	}
	b.n.subKeys = c16xkvRemove(b.n.subKeys, i)
	subs := make([]*c16xkvNode, 0, len(b.n.subs))
	subs = append(subs, b.n.subs[:i]...)
	subs = append(subs, b.n.subs[i+1:]...)
	b.n.subs = subs
	return nil
}

func (b *c16xkvB) Sequence() uint64 { return b.n.seq }

func (b *c16xkvB) SetSequence(v uint64) error {
	if !b.tx.rw {
		return walletdb.ErrTxNotWritable
	}
	b.n.seq = v
	return nil
}

// c16xkvSame: two bucket trees hold the same keys, values and nested buckets.
func c16xkvSame(a, b *c16xkvNode) bool {
	if (a == nil) != (b == nil) {
		return false
	}
	if a == nil {
		return true
	}
	if len(a.keys) != len(b.keys) || len(a.subs) != len(b.subs) {
		return false
	}
	for i := range a.keys {
		if !bytes.Equal(a.keys[i], b.keys[i]) || !bytes.Equal(a.vals[i], b.vals[i]) {
			return false
		}
	}
	for i := range a.subs {
		if !bytes.Equal(a.subKeys[i], b.subKeys[i]) || !c16xkvSame(a.subs[i], b.subs[i]) {
			return false
		}
	}
	return true
}

func (n *c16xkvNode) sub(key []byte) *c16xkvNode {
	if n == nil {
		return nil
	}
	if i := c16xkvIndex(n.subKeys, key); i >= 0 {
		return n.subs[i]
	}
	return nil
}

type c16xSQLAttempt struct {
	row  sqlc.FetchHtlcAttemptsForPaymentsRow // attempt columns + resolution columns (LEFT JOIN)
	hops []sqlc.FetchHopsForAttemptsRow       // hop columns + mpp/amp/blinded columns (LEFT JOIN)
}

type c16xSQL struct {
	pay    []sqlc.Payment
	atts   []c16xSQLAttempt
	nextID int64
}

type c16xResult int64

func (r c16xResult) LastInsertId() (int64, error) { return 0, nil }
func (r c16xResult) RowsAffected() (int64, error) { return int64(r), nil }

func (f *c16xSQL) id() int64 {
	f.nextID++
	return f.nextID
}

// ExecTx: run the body; on error restore the snapshot (rollback).
func (f *c16xSQL) ExecTx(ctx context.Context, _ sqldb.TxOptions,
	body func(SQLQueries) error, reset func()) error {

	pay := append([]sqlc.Payment(nil), f.pay...)
	atts := append([]c16xSQLAttempt(nil), f.atts...)
	reset()
	if err := body(f); err != nil {
		f.pay, f.atts = pay, atts
		return err
	}

	return nil
}

func c16xIn(ids []int64, id int64) bool {
	for _, x := range ids {
		if x == id {
			return true
		}
	}
	return false
}

// ---- reads ----

func (f *c16xSQL) FetchPayment(_ context.Context, ident []byte) (sqlc.FetchPaymentRow, error) {
	for _, p := range f.pay {
		if bytes.Equal(p.PaymentIdentifier, ident) {
			return sqlc.FetchPaymentRow{Payment: p}, nil
		}
	}
	return sqlc.FetchPaymentRow{}, sql.ErrNoRows
}

func (f *c16xSQL) FetchHtlcAttemptsForPayments(_ context.Context, ids []int64) ([]sqlc.FetchHtlcAttemptsForPaymentsRow, error) {
	var out []sqlc.FetchHtlcAttemptsForPaymentsRow
	for _, a := range f.atts {
		if c16xIn(ids, a.row.PaymentID) {
			out = append(out, a.row)
		}
	}
	return out, nil
}

func (f *c16xSQL) FetchHtlcAttemptResolutionsForPayments(_ context.Context, ids []int64) ([]sqlc.FetchHtlcAttemptResolutionsForPaymentsRow, error) {
	var out []sqlc.FetchHtlcAttemptResolutionsForPaymentsRow
	for _, a := range f.atts {
		if c16xIn(ids, a.row.PaymentID) {
			out = append(out, sqlc.FetchHtlcAttemptResolutionsForPaymentsRow{
				PaymentID: a.row.PaymentID, ResolutionType: a.row.ResolutionType,
			})
		}
	}
	return out, nil
}

func (f *c16xSQL) FetchHopsForAttempts(_ context.Context, idx []int64) ([]sqlc.FetchHopsForAttemptsRow, error) {
	var out []sqlc.FetchHopsForAttemptsRow
	for _, a := range f.atts {
		if c16xIn(idx, a.row.AttemptIndex) {
			out = append(out, a.hops...)
		}
	}
	return out, nil
}

func (f *c16xSQL) FetchPaymentLevelFirstHopCustomRecords(context.Context, []int64) ([]sqlc.PaymentFirstHopCustomRecord, error) {
	return nil, nil
}
func (f *c16xSQL) FetchRouteLevelFirstHopCustomRecords(context.Context, []int64) ([]sqlc.PaymentAttemptFirstHopCustomRecord, error) {
	return nil, nil
}
func (f *c16xSQL) FetchHopLevelCustomRecords(context.Context, []int64) ([]sqlc.PaymentHopCustomRecord, error) {
	return nil, nil
}
func (f *c16xSQL) FilterPayments(context.Context, sqlc.FilterPaymentsParams) ([]sqlc.FilterPaymentsRow, error) {
	return nil, errC16xUnused
}
func (f *c16xSQL) FilterPaymentsDesc(context.Context, sqlc.FilterPaymentsDescParams) ([]sqlc.FilterPaymentsDescRow, error) {
	return nil, errC16xUnused
}
func (f *c16xSQL) FetchPaymentsByIDs(context.Context, []int64) ([]sqlc.FetchPaymentsByIDsRow, error) {
	return nil, errC16xUnused
}
func (f *c16xSQL) FetchNonTerminalPayments(context.Context, sqlc.FetchNonTerminalPaymentsParams) ([]sqlc.FetchNonTerminalPaymentsRow, error) {
	return nil, errC16xUnused
}
func (f *c16xSQL) CountPayments(context.Context) (int64, error) { return int64(len(f.pay)), nil }
func (f *c16xSQL) FetchPaymentDuplicates(context.Context, int64) ([]sqlc.PaymentDuplicate, error) {
	return nil, nil
}

// ---- writes ----

func (f *c16xSQL) InsertPaymentIntent(context.Context, sqlc.InsertPaymentIntentParams) (int64, error) {
	return f.id(), nil
}

func (f *c16xSQL) InsertPayment(_ context.Context, arg sqlc.InsertPaymentParams) (int64, error) {
	for _, p := range f.pay {
		if bytes.Equal(p.PaymentIdentifier, arg.PaymentIdentifier) {
			return 0, errC16xUnique
		}
	}
	id := f.id()
	f.pay = append(append([]sqlc.Payment(nil), f.pay...), sqlc.Payment{
		ID: id, AmountMsat: arg.AmountMsat, CreatedAt: arg.CreatedAt,
		PaymentIdentifier: arg.PaymentIdentifier,
	})
	return id, nil
}

func (f *c16xSQL) InsertPaymentFirstHopCustomRecord(context.Context, sqlc.InsertPaymentFirstHopCustomRecordParams) error {
	return nil
}

func (f *c16xSQL) InsertHtlcAttempt(_ context.Context, arg sqlc.InsertHtlcAttemptParams) (int64, error) {
	known := false
	for _, p := range f.pay {
		if p.ID == arg.PaymentID {
			known = true
		}
	}
	if !known {
		return 0, errC16xFK
	}
	for _, a := range f.atts {
		if a.row.AttemptIndex == arg.AttemptIndex {
			return 0, errC16xUnique
		}
	}
	id := f.id()
	f.atts = append(append([]c16xSQLAttempt(nil), f.atts...), c16xSQLAttempt{
		row: sqlc.FetchHtlcAttemptsForPaymentsRow{
			ID: id, AttemptIndex: arg.AttemptIndex, PaymentID: arg.PaymentID,
			SessionKey: arg.SessionKey, AttemptTime: arg.AttemptTime,
			PaymentHash: arg.PaymentHash, FirstHopAmountMsat: arg.FirstHopAmountMsat,
			RouteTotalTimeLock: arg.RouteTotalTimeLock, RouteTotalAmount: arg.RouteTotalAmount,
			RouteSourceKey: arg.RouteSourceKey,
		},
	})
	return id, nil
}

func (f *c16xSQL) InsertRouteHop(_ context.Context, arg sqlc.InsertRouteHopParams) (int64, error) {
	for i := range f.atts {
		if f.atts[i].row.AttemptIndex != arg.HtlcAttemptIndex {
			continue
		}
		id := f.id()
		n := append([]c16xSQLAttempt(nil), f.atts...)
		n[i].hops = append(append([]sqlc.FetchHopsForAttemptsRow(nil), n[i].hops...), sqlc.FetchHopsForAttemptsRow{
			ID: id, HtlcAttemptIndex: arg.HtlcAttemptIndex, HopIndex: arg.HopIndex,
			PubKey: arg.PubKey, Scid: arg.Scid, OutgoingTimeLock: arg.OutgoingTimeLock,
			AmtToForward: arg.AmtToForward, MetaData: arg.MetaData,
		})
		f.atts = n
		return id, nil
	}
	return 0, errC16xFK
}

// c16Hop applies fn to the hop row with the given id (copy on write).
func (f *c16xSQL) c16xHop(hopID int64, fn func(h *sqlc.FetchHopsForAttemptsRow)) error {
	for i := range f.atts {
		for j := range f.atts[i].hops {
			if f.atts[i].hops[j].ID != hopID {
				continue
			}
			n := append([]c16xSQLAttempt(nil), f.atts...)
			hs := append([]sqlc.FetchHopsForAttemptsRow(nil), n[i].hops...)
			fn(&hs[j])
			n[i].hops = hs
			f.atts = n
			return nil
		}
	}
	return errC16xFK
}

func (f *c16xSQL) InsertRouteHopMpp(_ context.Context, arg sqlc.InsertRouteHopMppParams) error {
	return f.c16xHop(arg.HopID, func(h *sqlc.FetchHopsForAttemptsRow) {
		h.MppPaymentAddr = arg.PaymentAddr
		h.MppTotalMsat = sql.NullInt64{Int64: arg.TotalMsat, Valid: true}
	})
}

func (f *c16xSQL) InsertRouteHopAmp(_ context.Context, arg sqlc.InsertRouteHopAmpParams) error {
	return f.c16xHop(arg.HopID, func(h *sqlc.FetchHopsForAttemptsRow) {
		h.AmpRootShare, h.AmpSetID = arg.RootShare, arg.SetID
		h.AmpChildIndex = sql.NullInt32{Int32: arg.ChildIndex, Valid: true}
	})
}

func (f *c16xSQL) InsertRouteHopBlinded(_ context.Context, arg sqlc.InsertRouteHopBlindedParams) error {
	return f.c16xHop(arg.HopID, func(h *sqlc.FetchHopsForAttemptsRow) {
		h.EncryptedData, h.BlindingPoint = arg.EncryptedData, arg.BlindingPoint
		h.BlindedPathTotalAmt = arg.BlindedPathTotalAmt
	})
}

func (f *c16xSQL) InsertPaymentAttemptFirstHopCustomRecord(context.Context, sqlc.InsertPaymentAttemptFirstHopCustomRecordParams) error {
	return nil
}
func (f *c16xSQL) InsertPaymentHopCustomRecord(context.Context, sqlc.InsertPaymentHopCustomRecordParams) error {
	return nil
}

// c16Resolve: INSERT INTO payment_htlc_attempt_resolutions - primary key
// attempt_index (at most one resolution), foreign key to the attempt.
func (f *c16xSQL) c16xResolve(idx int64, fn func(r *sqlc.FetchHtlcAttemptsForPaymentsRow)) error {
	for i := range f.atts {
		if f.atts[i].row.AttemptIndex != idx {
			continue
		}
		if f.atts[i].row.ResolutionType.Valid {
			return errC16xUnique
		}
		n := append([]c16xSQLAttempt(nil), f.atts...)
		fn(&n[i].row)
		f.atts = n
		return nil
	}
	return errC16xFK
}

func (f *c16xSQL) SettleAttempt(_ context.Context, arg sqlc.SettleAttemptParams) error {
	return f.c16xResolve(arg.AttemptIndex, func(r *sqlc.FetchHtlcAttemptsForPaymentsRow) {
		r.ResolutionType = sql.NullInt32{Int32: arg.ResolutionType, Valid: true}
		r.ResolutionTime = sql.NullTime{Time: arg.ResolutionTime, Valid: true}
		r.SettlePreimage = arg.SettlePreimage
	})
}

func (f *c16xSQL) FailAttempt(_ context.Context, arg sqlc.FailAttemptParams) error {
	return f.c16xResolve(arg.AttemptIndex, func(r *sqlc.FetchHtlcAttemptsForPaymentsRow) {
		r.ResolutionType = sql.NullInt32{Int32: arg.ResolutionType, Valid: true}
		r.ResolutionTime = sql.NullTime{Time: arg.ResolutionTime, Valid: true}
		r.FailureSourceIndex, r.HtlcFailReason, r.FailureMsg = arg.FailureSourceIndex, arg.HtlcFailReason, arg.FailureMsg
	})
}

func (f *c16xSQL) FailPayment(_ context.Context, arg sqlc.FailPaymentParams) (sql.Result, error) {
	n := append([]sqlc.Payment(nil), f.pay...)
	cnt := 0
	for i := range n {
		if bytes.Equal(n[i].PaymentIdentifier, arg.PaymentIdentifier) {
			n[i].FailReason = arg.FailReason
			cnt++
		}
	}
	f.pay = n
	return c16xResult(cnt), nil
}

func (f *c16xSQL) DeletePayment(_ context.Context, id int64) error {
	var pay []sqlc.Payment
	for _, p := range f.pay {
		if p.ID != id {
			pay = append(pay, p)
		}
	}
	var atts []c16xSQLAttempt
	for _, a := range f.atts {
		if a.row.PaymentID != id { // ON DELETE CASCADE
			atts = append(atts, a)
		}
	}
	f.pay, f.atts = pay, atts
	return nil
}

func (f *c16xSQL) DeleteFailedAttempts(_ context.Context, id int64) error {
	var atts []c16xSQLAttempt
	for _, a := range f.atts {
		if a.row.PaymentID == id && a.row.ResolutionType.Valid && a.row.ResolutionType.Int32 == 2 {
			continue
		}
		atts = append(atts, a)
	}
	f.atts = atts
	return nil
}
