package paymentsdb

// C16x, entry family "Equiv": backend equivalence kv vs SQL.
//
// The SAME symbolic short history is applied to
//   - the real KVStore  (kv_store.go + codecs) over the fake walletdb c16xkvDB
//   - the real SQLStore (sql_store.go + converters) over the fake sqlc layer c16xSQL
// and after EVERY operation the harness compares
//   (a) the answer: admitted / refused, and the error class (which lnd
//       sentinel error errors.Is finds in the returned error),
//   (b) the payment the operation returns (if any),
//   (c) what FetchPayment answers for BOTH payment hashes afterwards
//       (error class, status, value, state, failure reason, every attempt by
//       id: amounts, MPP record / blinded data, settle / failure).
// No model of lnd code: the oracle is "the two real stores say the same".
//
// History = concrete prefix `pre` (built through the same real API on both
// stores, symbolic amounts) + `len` free operations, each chosen by the
// engine among InitPayment / RegisterAttempt / SettleAttempt / FailAttempt /
// Fail / DeletePayment(failedOnly 0|1) / FetchPayment, on one of two payment
// hashes, with one of two symbolic attempt ids (idA < idB), attempts MPP
// (total T), MPP (total T+1, mismatching record), blinded (no MPP record),
// plain (no MPP record).

import (
	"context"
	"database/sql"
	"errors"

	"github.com/btcsuite/btcd/btcec/v2"
	"github.com/lightningnetwork/lnd/lntypes"
	"github.com/lightningnetwork/lnd/lnwire"
	"github.com/lightningnetwork/lnd/record"
	"github.com/lightningnetwork/lnd/routing/route"
	"github.com/lightningnetwork/lnd/sqldb"
)

const (
	c16xMaxMsat  = 2_100_000_000_000_000_000 // bitcoin supply in msat
	c16xMPPTotal = 5_000_000                 // concrete: truncated-integer TLV
)

var (
	c16xHashes   = [2]lntypes.Hash{{0xc1, 0x6}, {0xc1, 0x7}}
	c16xAddr     = [32]byte{0xad, 0xd7}
	c16xVertex   = route.Vertex{2, 0x16}
	c16xSource   = route.Vertex{3, 0x16}
	c16xPreimage = lntypes.Preimage{0x16, 0x16}
)

// operations
const (
	c16xOpInit = iota
	c16xOpRegister
	c16xOpSettle
	c16xOpFailAttempt
	c16xOpFail
	c16xOpDelete
	c16xOpFetch
	c16xNumOp
)

// attempt kinds
const (
	c16xMPP      = 0 // MPP record, total T
	c16xMPPOther = 1 // MPP record, total T+1 (mismatches kind 0)
	c16xBlinded  = 2 // blinded final hop with total, no MPP record
	c16xPlain    = 3 // neither
)

// what the finding entries switch on
type c16xCfg struct {
	dupID       bool // RegisterAttempt may reuse an attempt id that is stored
	crossHash   bool // Settle/FailAttempt may name an id stored under the other hash
	strictClass bool // error classes must be equal without exemption
}

type c16xWorld struct {
	cfg c16xCfg
	kdb *c16xkvDB
	kv  *KVStore
	f   *c16xSQL
	sq  *SQLStore
	ids [2]uint64
}

// c16xB: bool -> 0/1 without control flow in the caller (one triangle).
func c16xB(c bool) uint8 {
	var r uint8
	if c {
		r = 1
	}
	return r
}

// c16xClass: which documented sentinel the error carries (errors.Is), 0 = nil,
// 99 = an error without any of them.
func c16xClass(err error) int {
	if err == nil {
		return 0
	}
	list := []error{
		ErrPaymentNotInitiated,               // 1
		ErrPaymentExists,                     // 2
		ErrPaymentInFlight,                   // 3
		ErrAlreadyPaid,                       // 4
		ErrPaymentAlreadySucceeded,           // 5
		ErrPaymentAlreadyFailed,              // 6
		ErrPaymentTerminal,                   // 7
		ErrPaymentPendingSettled,             // 8
		ErrPaymentPendingFailed,              // 9
		ErrValueMismatch,                     // 10
		ErrValueExceedsAmt,                   // 11
		ErrNonMPPayment,                      // 12
		ErrMPPayment,                         // 13
		ErrMPPRecordInBlindedPayment,         // 14
		ErrBlindedPaymentTotalAmountMismatch, // 15
		ErrMixedBlindedAndNonBlindedPayments, // 16
		ErrBlindedPaymentMissingTotalAmount,  // 17
		ErrMPPPaymentAddrMismatch,            // 18
		ErrMPPTotalAmountMismatch,            // 19
		ErrAttemptAlreadySettled,             // 20
		ErrAttemptAlreadyFailed,              // 21
		ErrSentExceedsTotal,                  // 22
	}
	for i, e := range list {
		if errors.Is(err, e) {
			return i + 1
		}
	}
	return 99
}

func c16xInfo(id, amt, tot uint64, kind int, h lntypes.Hash) *HTLCAttemptInfo {
	hop := &route.Hop{
		PubKeyBytes:      c16xVertex,
		ChannelID:        1,
		OutgoingTimeLock: 100,
		AmtToForward:     lnwire.MilliSatoshi(amt),
	}
	switch kind {
	case c16xMPP:
		hop.MPP = record.NewMPP(c16xMPPTotal, c16xAddr)
	case c16xMPPOther:
		hop.MPP = record.NewMPP(c16xMPPTotal+1, c16xAddr)
	case c16xBlinded:
		hop.EncryptedData = []byte{1}
		hop.TotalAmtMsat = c16xMPPTotal
	}
	return &HTLCAttemptInfo{
		AttemptID: id,
		Route: route.Route{
			TotalTimeLock: 144,
			TotalAmount:   lnwire.MilliSatoshi(tot),
			SourcePubKey:  c16xSource,
			Hops:          []*route.Hop{hop},
		},
		Hash: &h,
		// a cached session key, so that SessionKey() does not derive the
		// key (elliptic-curve code is outside the engine)
		cachedSessionKey: &btcec.PrivateKey{},
	}
}

// ---- raw reads of the SQL fake (harness bookkeeping, no lnd code) ----

// c16xStored: 0 = no attempt with this id is stored, 1 = stored under the
// payment with hash h, 2 = stored under another payment.
func (f *c16xSQL) c16xStored(id uint64, h lntypes.Hash) int {
	for _, a := range f.atts {
		if a.row.AttemptIndex != int64(id) {
			continue
		}
		for _, p := range f.pay {
			if p.ID == a.row.PaymentID {
				if string(p.PaymentIdentifier) == string(h[:]) {
					return 1
				}
				return 2
			}
		}
	}
	return 0
}

// ---- comparison of what the two stores report ----

func c16xSameHTLC(a, b *HTLCAttempt) uint8 {
	ok := uint8(1)
	ok &= c16xB(a.Route.TotalAmount == b.Route.TotalAmount)
	ok &= c16xB(a.Route.TotalTimeLock == b.Route.TotalTimeLock)
	ok &= c16xB(a.Route.SourcePubKey == b.Route.SourcePubKey)
	ok &= c16xB((a.Hash == nil) == (b.Hash == nil))
	if a.Hash != nil && b.Hash != nil {
		ok &= c16xB(*a.Hash == *b.Hash)
	}
	ok &= c16xB((a.Settle != nil) == (b.Settle != nil))
	if a.Settle != nil && b.Settle != nil {
		ok &= c16xB(a.Settle.Preimage == b.Settle.Preimage)
	}
	ok &= c16xB((a.Failure != nil) == (b.Failure != nil))
	if a.Failure != nil && b.Failure != nil {
		ok &= c16xB(a.Failure.Reason == b.Failure.Reason)
		ok &= c16xB(a.Failure.FailureSourceIndex == b.Failure.FailureSourceIndex)
	}
	if len(a.Route.Hops) != 1 || len(b.Route.Hops) != 1 {
		return 0
	}
	x, y := a.Route.Hops[0], b.Route.Hops[0]
	ok &= c16xB(x.AmtToForward == y.AmtToForward)
	ok &= c16xB(x.ChannelID == y.ChannelID)
	ok &= c16xB(x.PubKeyBytes == y.PubKeyBytes)
	ok &= c16xB(x.OutgoingTimeLock == y.OutgoingTimeLock)
	ok &= c16xB(x.TotalAmtMsat == y.TotalAmtMsat)
	ok &= c16xB(len(x.EncryptedData) == len(y.EncryptedData))
	ok &= c16xB((x.MPP != nil) == (y.MPP != nil))
	if x.MPP != nil && y.MPP != nil {
		ok &= c16xB(x.MPP.TotalMsat() == y.MPP.TotalMsat())
		ok &= c16xB(x.MPP.PaymentAddr() == y.MPP.PaymentAddr())
	}
	ok &= c16xB((x.AMP != nil) == (y.AMP != nil))
	return ok
}

func c16xSamePayment(a, b *MPPayment) uint8 {
	if a == nil || b == nil {
		return c16xB(a == nil && b == nil)
	}
	if a.Info == nil || b.Info == nil || a.State == nil || b.State == nil {
		return 0
	}
	ok := uint8(1)
	ok &= c16xB(a.Info.Value == b.Info.Value)
	ok &= c16xB(a.Info.PaymentIdentifier == b.Info.PaymentIdentifier)
	ok &= c16xB(a.Status == b.Status)
	ok &= c16xB(a.State.RemainingAmt == b.State.RemainingAmt)
	ok &= c16xB(a.State.FeesPaid == b.State.FeesPaid)
	ok &= c16xB(a.State.NumAttemptsInFlight == b.State.NumAttemptsInFlight)
	ok &= c16xB(a.State.HasSettledHTLC == b.State.HasSettledHTLC)
	ok &= c16xB(a.State.PaymentFailed == b.State.PaymentFailed)
	ok &= c16xB((a.FailureReason != nil) == (b.FailureReason != nil))
	if a.FailureReason != nil && b.FailureReason != nil {
		ok &= c16xB(*a.FailureReason == *b.FailureReason)
	}
	if len(a.HTLCs) != len(b.HTLCs) {
		return 0
	}
	// attempts matched by id (kv returns them in id order, the SQL query in
	// attempt_time order)
	for i := range a.HTLCs {
		n := 0
		for j := range b.HTLCs {
			if a.HTLCs[i].AttemptID == b.HTLCs[j].AttemptID {
				n++
				ok &= c16xSameHTLC(&a.HTLCs[i], &b.HTLCs[j])
			}
		}
		if n != 1 {
			return 0
		}
	}
	return ok
}

// c16xCompareFetch: FetchPayment on both hashes through both stores.
func (w *c16xWorld) compareFetch(ctx context.Context) (st [2]int) {
	for i := range c16xHashes {
		mk, ek := w.kv.FetchPayment(ctx, c16xHashes[i])
		ms, es := w.sq.FetchPayment(ctx, c16xHashes[i])
		vAssert(c16xClass(ek) == c16xClass(es), "equiv: FetchPayment answers with the same error class on both backends")
		vAssert((ek == nil) == (mk != nil) && (es == nil) == (ms != nil), "equiv: FetchPayment returns a payment iff it returns no error")
		st[i] = -1
		if ek != nil || es != nil || mk == nil || ms == nil {
			continue
		}
		vAssert(c16xSamePayment(mk, ms) == 1, "equiv: FetchPayment reports the same payment on both backends (status, value, state, failure reason, every attempt with amounts / MPP / blinded data / resolution)")
		st[i] = int(mk.Status)
	}
	return st
}

// apply runs ONE operation on both stores and compares. false = the path is
// outside the entry's domain (stop).
func (w *c16xWorld) apply(op, hi, ii, kind, fo int, tag string) bool {
	ctx := context.Background()
	h := c16xHashes[hi]
	id := w.ids[ii]
	var (
		ek, es error
		mk, ms *MPPayment
		hasP   bool // the operation returns a payment
	)
	stored := 0
	switch op {
	case c16xOpInit:
		v := vU64("value" + tag)
		vAssume(v <= c16xMaxMsat) // numeric domain: bitcoin supply
		ek = w.kv.InitPayment(ctx, h, &PaymentCreationInfo{PaymentIdentifier: h, Value: lnwire.MilliSatoshi(v)})
		es = w.sq.InitPayment(ctx, h, &PaymentCreationInfo{PaymentIdentifier: h, Value: lnwire.MilliSatoshi(v)})
	case c16xOpRegister:
		stored = w.f.c16xStored(id, h)
		if stored != 0 && !w.cfg.dupID {
			// attempt ids come from the switch's persistent sequencer: an
			// id that is stored (under any payment) is never handed out
			// again. The other case is entry VerifC16xEquivDupID.
			return false
		}
		amt, tot := vU64("amt"+tag), vU64("tot"+tag)
		vAssume(amt <= tot && tot <= c16xMaxMsat) // route total includes the receiver amount
		hasP = true
		mk, ek = w.kv.RegisterAttempt(ctx, h, c16xInfo(id, amt, tot, kind, h))
		ms, es = w.sq.RegisterAttempt(ctx, h, c16xInfo(id, amt, tot, kind, h))
	case c16xOpSettle, c16xOpFailAttempt:
		stored = w.f.c16xStored(id, h)
		if stored == 2 && !w.cfg.crossHash {
			// the id belongs to an attempt of the OTHER payment: the
			// router resolves an attempt under the hash it registered it
			// with. The other case is entry VerifC16xEquivCrossHash.
			return false
		}
		hasP = true
		if op == c16xOpSettle {
			mk, ek = w.kv.SettleAttempt(ctx, h, id, &HTLCSettleInfo{Preimage: c16xPreimage})
			ms, es = w.sq.SettleAttempt(ctx, h, id, &HTLCSettleInfo{Preimage: c16xPreimage})
		} else {
			mk, ek = w.kv.FailAttempt(ctx, h, id, &HTLCFailInfo{Reason: HTLCFailUnreadable, FailureSourceIndex: 1})
			ms, es = w.sq.FailAttempt(ctx, h, id, &HTLCFailInfo{Reason: HTLCFailUnreadable, FailureSourceIndex: 1})
		}
	case c16xOpFail:
		r := FailureReason(vU8("reason"+tag) & 7)
		hasP = true
		mk, ek = w.kv.Fail(ctx, h, r)
		ms, es = w.sq.Fail(ctx, h, r)
	case c16xOpDelete:
		ek = w.kv.DeletePayment(ctx, h, fo == 1)
		es = w.sq.DeletePayment(ctx, h, fo == 1)
	case c16xOpFetch:
		// nothing: the comparison below fetches both hashes
	}

	ck, cs := c16xClass(ek), c16xClass(es)
	vObserve("classKV"+tag, ck)
	vObserve("classSQL"+tag, cs)

	// (a) same answer
	vAssert((ek == nil) == (es == nil), "equiv: both backends admit the operation or both refuse it")
	if ck != cs {
		exempt := false
		if !w.cfg.strictClass {
			switch {
			case (op == c16xOpSettle || op == c16xOpFailAttempt) && (ck == 20 || ck == 21) && cs == 99:
				// second resolution of an attempt: kv answers
				// ErrAttemptAlreadySettled / ErrAttemptAlreadyFailed, SQL
				// the primary-key violation of the resolutions table
				vReach("classdiff-double-resolution")
				exempt = true
			case op == c16xOpDelete && ck == 99 && cs == 1:
				// DeletePayment of an unknown hash: kv "non bucket
				// element", SQL ErrPaymentNotInitiated
				vReach("classdiff-delete-unknown")
				exempt = true
			case op == c16xOpRegister && ck == 1 && cs == 99:
				// RegisterAttempt on an unknown hash: kv
				// ErrPaymentNotInitiated, SQL sql.ErrNoRows
				vAssert(errors.Is(es, sql.ErrNoRows), "equiv: SQL RegisterAttempt on an unknown hash answers sql.ErrNoRows")
				vReach("classdiff-register-unknown")
				exempt = true
			}
		}
		vAssert(exempt, "equiv: both backends answer with the same error class")
	}
	// (b) same returned payment
	if hasP {
		vAssert((ek == nil) == (mk != nil) && (es == nil) == (ms != nil), "equiv: the operation returns a payment iff it is admitted")
		if mk != nil && ms != nil {
			vAssert(c16xSamePayment(mk, ms) == 1, "equiv: the payment returned by the operation is the same on both backends")
		}
	}
	// (c) same resulting state, both hashes
	st := w.compareFetch(ctx)

	// reach labels (both agree here, or an assertion above failed)
	admitted := ek == nil && es == nil
	switch op {
	case c16xOpInit:
		if admitted {
			vReach("init")
			if st[0] >= 0 && st[1] >= 0 {
				vReach("two-payments")
			}
		} else {
			vReach("init-refused")
		}
	case c16xOpRegister:
		switch {
		case admitted && stored != 0:
			vReach("register-dup-id")
		case admitted && kind == c16xBlinded:
			vReach("register-blinded")
		case admitted && kind == c16xPlain:
			vReach("register-plain")
		case admitted:
			vReach("register-mpp")
		case ck == 19:
			vReach("register-refused-mpp-mismatch")
		case ck == 11:
			vReach("register-refused-exceeds")
		case ck == 16 || ck == 13 || ck == 12:
			vReach("register-refused-mixed")
		default:
			vReach("register-refused")
		}
	case c16xOpSettle, c16xOpFailAttempt:
		switch {
		case admitted && op == c16xOpSettle:
			vReach("settle")
		case admitted:
			vReach("fail-attempt")
		default:
			vReach("resolve-refused")
		}
	case c16xOpFail:
		if admitted {
			vReach("fail-payment")
		} else {
			vReach("fail-payment-refused")
		}
	case c16xOpDelete:
		switch {
		case admitted && fo == 1:
			vReach("delete-failed-attempts")
		case admitted:
			vReach("delete")
		default:
			vReach("delete-refused")
		}
	case c16xOpFetch:
		vReach("fetch")
	}
	if st[hi] == int(StatusSucceeded) {
		vReach("succeeded")
	}
	if st[hi] == int(StatusFailed) {
		vReach("failed")
	}
	return true
}

func c16xEquiv(cfg c16xCfg) {
	vOverflow("(*github.com/lightningnetwork/lnd/payments/db.MPPayment).SentAmt")
	vOverflow("github.com/lightningnetwork/lnd/payments/db.verifyAttempt")
	vNoop("time.Since")
	vAssumption("C16x: in-memory fake of the kvdb backend (walletdb.DB) c16xkvDB and of the sqlc query layer (BatchedSQLQueries) c16xSQL, copies of the C16 fakes; atomic transactions, rollback on error")
	vAssumption("C16x: amounts <= 2.1e18 msat, receiver amount <= route total; attempt ids idA < idB < 2^62; one-hop routes with concrete keys; MPP / blinded totals concrete (5_000_000 resp. 5_000_001); failure reason code 0..7; zero times")

	kdb := &c16xkvDB{top: &c16xkvNode{}}
	kv, err := NewKVStore(kdb)
	vAssert(err == nil && kv != nil, "equiv: the kv store is created on an empty database")
	if err != nil || kv == nil {
		return
	}
	f := &c16xSQL{nextID: 100}
	sq := &SQLStore{
		cfg: &SQLStoreConfig{QueryCfg: &sqldb.QueryConfig{MaxBatchSize: 250, MaxPageSize: 100}},
		db:  f,
	}
	w := &c16xWorld{cfg: cfg, kdb: kdb, kv: kv, f: f, sq: sq}
	w.ids[0], w.ids[1] = vU64("idA"), vU64("idB")
	// two different attempt ids; the SQL schema stores them as BIGINT
	vAssume(w.ids[0] < w.ids[1] && w.ids[1] < 1<<62)

	// concrete prefix on payment hash 0, attempt idA (MPP), through the same
	// real API on both stores (every step compared as well)
	pre := vChoice("pre", 6)
	if pre >= 1 && !w.apply(c16xOpInit, 0, 0, 0, 0, "P0") {
		return
	}
	if pre >= 2 && !w.apply(c16xOpRegister, 0, 0, c16xMPP, 0, "P1") {
		return
	}
	if pre == 3 && !w.apply(c16xOpSettle, 0, 0, 0, 0, "P2") {
		return
	}
	if pre >= 4 && !w.apply(c16xOpFailAttempt, 0, 0, 0, 0, "P2") {
		return
	}
	if pre == 5 && !w.apply(c16xOpFail, 0, 0, 0, 0, "P3") {
		return
	}

	n := 1 + vChoice("len", C16X_LEN)
	for s := 0; s < n; s++ {
		tag := c16xIdx[s]
		op := vChoice("op"+tag, c16xNumOp)
		hi := vChoice("h"+tag, 2)
		ii, kind, fo := 0, 0, 0
		switch op {
		case c16xOpRegister:
			ii = vChoice("id"+tag, 2)
			kind = vChoice("kind"+tag, 4)
		case c16xOpSettle, c16xOpFailAttempt:
			ii = vChoice("id"+tag, 2)
		case c16xOpDelete:
			fo = vChoice("fo"+tag, 2)
		}
		if !w.apply(op, hi, ii, kind, fo, tag) {
			return
		}
	}
	vReach("history-done")
}

var c16xIdx = [...]string{"0", "1", "2", "3"}

// VerifC16xEquiv: the green entry. Domain: fresh attempt ids on
// RegisterAttempt, Settle/FailAttempt never name an attempt of the other
// payment; three documented error-class differences are exempted (and must
// be reached).
func VerifC16xEquiv() { c16xEquiv(c16xCfg{}) }

// Candidate-finding entries (expected to report a violation on the unchanged
// tree, see NOTES.md).
func VerifC16xEquivDupID() { c16xEquiv(c16xCfg{dupID: true}) }

func VerifC16xEquivCrossHash() { c16xEquiv(c16xCfg{crossHash: true}) }

func VerifC16xEquivErrClass() { c16xEquiv(c16xCfg{strictClass: true}) }
